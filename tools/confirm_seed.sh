#!/bin/bash
# usage: tools/confirm_seed.sh <agent worktree> <mutN> <seed id> [base commit, default HEAD]
# Confirms a seeded change in a fresh scratch worktree: demo passes on the pristine tree, fails with the patch, the
# repository test-suite still passes (132) with the patch.  On success stores it as /verif/seeded/<seed id>/.
set -u
SRC=$1/$2; ID=$3
WT=$(mktemp -d /tmp/seedchk.XXXXXX); rmdir "$WT"
BASE=${4:-HEAD}
git -C /repo worktree add -q --detach "$WT" $BASE || exit 9
cp "$SRC/demo.py" "$WT/demo_seed.py"
cd "$WT"
PYTHONPATH="$WT" OMP_NUM_THREADS=2 /venv/bin/python demo_seed.py > "$WT/demo_pristine.log" 2>&1; RC0=$?
git apply "$SRC/patch.diff" || { echo "$ID: patch does not apply"; git -C /repo worktree remove --force "$WT"; exit 9; }
PYTHONPATH="$WT" OMP_NUM_THREADS=2 /venv/bin/python demo_seed.py > "$WT/demo_mutated.log" 2>&1; RC1=$?
PASSED=$(PYTHONPATH="$WT" OMP_NUM_THREADS=3 MKL_NUM_THREADS=3 /venv/bin/python -m pytest -q -p no:cacheprovider --timeout=900 --continue-on-collection-errors -n 4 2>&1 | tail -1)
echo "$ID: demo pristine rc=$RC0, mutated rc=$RC1, tests: $PASSED"
if [ "$RC0" = 0 ] && [ "$RC1" != 0 ] && echo "$PASSED" | grep -q "132 passed"; then
  mkdir -p /verif/seeded/$ID
  cp "$SRC/patch.diff" /verif/seeded/$ID/patch.diff
  cp "$SRC/demo.py" /verif/seeded/$ID/demo.py
  python3 - "$SRC/meta.json" /verif/seeded/$ID/meta.json "$RC0" "$RC1" "$PASSED" "$BASE" <<'PY'
import json,sys
m=json.load(open(sys.argv[1]))
if sys.argv[6] != 'HEAD': m['base_commit']=sys.argv[6]
m['confirmed_by_main_session']={'demo_exit_pristine':int(sys.argv[3]),'demo_exit_mutated':int(sys.argv[4]),'test_suite_with_patch':sys.argv[5],
  'how':'tools/confirm_seed.sh: fresh scratch worktree of /repo HEAD, demo before/after git apply, full pytest run with the patch applied'}
json.dump(m,open(sys.argv[2],'w'),indent=1)
PY
  echo "$ID: stored"
else
  echo "$ID: NOT confirmed"; tail -5 "$WT/demo_pristine.log" "$WT/demo_mutated.log"
fi
git -C /repo worktree remove --force "$WT"
