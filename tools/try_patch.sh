#!/bin/bash
# usage: tools/try_patch.sh <patch.diff|-R:commit> <property> [extra check args]
# applies the patch to a scratch worktree of /repo (outside /repo and /verif), runs the check against it, removes the worktree.
set -u
P=$1; shift; [[ "$P" != -R:* ]] && P=$(readlink -f "$P")
PROP=$1; shift
WT=$(mktemp -d /tmp/pyvc_wt.XXXXXX)
rmdir "$WT"
# a seeded change whose lines were later rewritten by a fix: commit names the commit it applies to in meta.json (base_commit)
BASE=HEAD
if [[ "$P" != -R:* ]] && [ -f "$(dirname "$P")/meta.json" ]; then
  B=$(python3 -c "import json,sys; print(json.load(open(sys.argv[1])).get('base_commit',''))" "$(dirname "$P")/meta.json" 2>/dev/null)
  [ -n "$B" ] && BASE=$B
fi
git -C /repo worktree add -q --detach "$WT" $BASE || exit 9
if [[ "$P" == -R:* ]]; then
  git -C "$WT" show "${P#-R:}" | git -C "$WT" apply -R || { echo "cannot revert"; git -C /repo worktree remove --force "$WT"; exit 9; }
else
  git -C "$WT" apply "$P" || { echo "cannot apply"; git -C /repo worktree remove --force "$WT"; exit 9; }
fi
cd /verif && PYVC_REPO="$WT" PYVC_EVIDENCE_DIR="$WT/.evidence" python3-vt -m pyvc.check "$PROP" "$@" | sed "s#$WT#<scratch>#g"
RC=${PIPESTATUS[0]}
git -C /repo worktree remove --force "$WT"
echo "exit=$RC"
exit $RC
