#!/usr/bin/env python3
"""Regenerates /verif/MANIFEST.json from the table below (run after adding a property check)."""
import json
import os

VERIF = os.path.dirname(os.path.dirname(os.path.abspath(__file__)))
props = [json.loads(l) for l in open(os.path.join(VERIF, 'properties.jsonl'))]

TECH = 'contract-based deductive verification: VCs generated from the real source by pyvc (AST symbolic execution + loop invariants), discharged by z3 / cvc5'
NOTE = ('trusted: A-real (floats as reals), the executable library contracts of torch/builtins in pyvc/tensor.py + pyvc/torchlib.py '
        '(cross-checked against CPython+torch on every run), z3/cvc5, the pyvc interpreter; see evidence.assumptions for the per-property list')

CLAIMED = {
    'C01': ('other', 'Per layer: producer -> [causal pad] -> searchable PIT layer is exported (real export code in a minimal fx graph) and the exported chain is '
            'proved equal to the masked chain on every input for every reachable mask pattern, all real weights / BatchNorm statistics / mask parameters; '
            'kernel sizes, dilations, strides, BatchNorm modes enumerated. Whole-model export equivalence through the real convert() pipeline on six enumerated architectures '
            '(bounded in topology); composition over all architectures is not decided.', '3 C01, 0-bis.7'),
    'C02': ('other', 'Per layer, per-layer search (as the statement restricts): eval-mode forward of MPSConv2d/Conv1d/Linear/Identity == forward of the Quant* layer '
            'export() builds, on every input; exported precisions == summary(); trained quantizer objects re-used. Wiring across layers: real MPS convert() on two enumerated '
            'architectures, every combination of selected precisions, concrete weights (bounded).', '3 C02, 0-bis.7'),
    'C03': ('other', 'Bounded in topology (never counted as a proof over all SuperNets): the real export_graph / link_combiners_to_branches run on torch.fx graphs of '
            'enumerated topologies (1..3 choice blocks of 2..3 and 12 branches: single layer, two-layer sequence, identity; a block invoked twice) with symbolic '
            'selection coefficients, weights and inputs; exported graph == hard-selection graph on every input, exactly the arg-max branches and the fixed layers '
            'remain, outside layers untouched. Tracing and the fx graph mutators are assumed library contracts, cross-checked against the real torch.fx.', '0-bis C03'),
    'C04': ('other', 'What PIT layers show the cost function (discrete = exported sizes; open masks = original sizes for k = 1..16), params cost = parameter count of '
            'the exported layer, and PIT._get_single_cost summing the right layers / invocations (shared, per-invocation, full_cost, dict specs); on the enumerated whole models the '
            'discrete cost == parameter count of the network export() returns, for every mask pattern (bounded in topology).', '3 C04, 0-bis.7'),
    'C05': ('other', 'Names and values MPS layers hand to cost functions, exact bit-cost under one-hot sampling (per-layer search), MPS._get_single_cost aggregation; '
            'per-channel cost with 0-bit is a recorded known finding; weight-size cost exact for the reported assignment on enumerated whole MPS models (real convert(), concrete weights).', '3 C05, 0-bis.7'),
    'C06': ('other', 'SuperNet cost == coefficient-weighted mix of branch costs per invocation (+ fixed layers), between min and max for every probability vector and '
            'for the real sampler on any raw coefficients, == selected branch under one-hot; == the metric of the exported network (params, ops) on three enumerated whole SuperNets '
            '(bounded in topology).', '3 C06, 0-bis.7'),
    'C07': ('other', 'BatchNorm fusing / folding algebra of remove_bn_inplace and fuse_bn_inplace for all bias/affine combinations, weight copy, open-mask forward '
            'identity, user objects untouched, mode restoration. Whole-model clauses (PIT / SuperNet / MPS constructors through the real convert()) on enumerated architectures only.', '3 C07, 0-bis.7'),
    'C08': ('other', 'Per layer (proofs over all reals): for ALL real architectural parameters every PIT layer keeps >= 1 feature, >= 1 tap, dilation >= 1; frozen maskers keep full size; exported sizes == '
            'summary(); export is defined. Kernel sizes 1..9 (quick) / 1..16, dilations, strides, widths enumerated. Which groups are frozen and that the exported network keeps the output shape: the real graph pass on enumerated graphs and enumerated whole models (bounded in topology); one architecture is a known finding (symmetric built-in padding of a temporal convolution).', '3 C08, 0-bis.7, 0-bis.8'),
    'C09': ('other', 'Contracts of the four features calculators (sum over concat of searchable / fixed inputs, flatten multiplier and mask expansion, propagation), '
            'their discrete consistency, the frame of register(), the channel-axis test of is_features_concatenate; the BFS that wires them runs from source on six enumerated '
            'architectures (bounded in topology), not over all DAGs.', '3 C09, 0-bis.7'),
    'C10': ('other', 'Post-conditions of the real samplers and selectors for all coefficient vectors without ties and temperatures in [0.05,20], from an arbitrary '
            'previous state (induction over histories of option updates / forward passes); lengths 1..4 enumerated. One known finding (SuperNet eval-mode soft sampling).', '3 C10'),
    'C11': ('proof', 'Exact-effect post-conditions of train_nas_only/train_net_only/train_net_and_nas, the PIT train_features/rf/dilation and '
            'discrete_cost switches and every update_softmax_options level, from an arbitrary (symbolic) previous trainability / option state, '
            'plus preservation of the frozen-mask invariant and the partition of parameters: induction over all call sequences on one '
            'representative wrapper per method (structure concrete, convert() under an assumed contract); frozen-by-construction groups and the parameter partition also through '
            'the real convert() on enumerated whole models.', '3 C11, 0-bis.7'),
    'C12': ('other', 'Composed: cost functions defined / non-negative / monotone (C16 harnesses), PIT effective sizes monotone in mask magnitudes in both cost modes, open '
            'masks = original, pass-through backward bodies of all straight-through functions; ODiMO reduction on a latency vector, the default ODiMO_MPS cost (known finding: cannot be evaluated). Clauses about autograd gradients are not decided.', '3 C12, 0-bis.8'),
    'C13': ('proof', 'Element-wise post-conditions of the real quantizer kernels (range, integrality, fq = int x reported scale, monotone, error '
            'below one step, truncation, zero-scale bias) over all real inputs, for bits 0,2..8 (quick: 0,2,4,8).', '3 C13'),
    'C14': ('other', 'binary_search (unbounded, recursive contract), range clauses of MATCH _integer_approximation on symbolic scales, dilation padding, floor-based requantisation '
            'range, constructors with and without bias (symbolic weights). The statement per layer: MATCH / MAUPITI conv2d / linear built by the real constructors reproduce, for EVERY '
            'integer input image, the integer image of their fake-quantized counterpart within one level + the scale/shift approximation bound; stored integers in range; last-layer '
            'logits clauses (weights / clipping values from concrete tables: bounded in those). integerize_arch on one enumerated whole exported MPS model (graph rewrite, quantizer '
            'identity, per-layer reproduction inside the network, input symbolic). One known finding (MAUPITIConv2d as last layer).', '0-bis.8, 3 C14'),
    'C15': ('proof', 'All clauses of the statement are post-conditions of the real CostSpec.__getitem__/__setitem__: loop-free proofs for every '
            'registration sequence of length 0..4 with symbolic constraint verdicts, plus an unbounded-length proof through a loop invariant '
            'on the scan. Order independence follows because the post-conditions mention only the set of registrations.', '3 C15'),
    'C16': ('other', 'Relational and post-condition clauses (defined, >= 0, > 0 for non-empty layers, monotone in size and bit-widths, depthwise = '
            'generic per group, exact rounding helpers with pass-through gradients, rejection of unsupported precisions) of every function '
            'registered in the cost specifications over all valid relaxed layer descriptions; see evidence.not_decided for what is left open.', '3 C16'),
    'C17': ('other', 'Bounded stand-in (never counted as proved): state_dict() -> load_state_dict() into a freshly constructed wrapper with the real constructors and conversion '
            'pipelines on one enumerated architecture per method; every state entry an arbitrary real (MPS: selection coefficients and temperatures), temperature annealing as '
            'search action; no missing / unexpected keys, identical outputs, cost, summary, exported network. One known finding (SuperNet temperature lives outside the state_dict). '
            'The closed-world clause over all attributes and actions is not decided.', '0-bis.7 C17'),
    'C18': ('other', 'Write frames of cost / get_cost / summary / cost_specification setter / export() of the three wrappers against the observables of the statement; '
            'specification switch-and-back; export twice. In the wrapper-level harnesses the conversion inside export() is an assumed contract; on the enumerated whole models the real '
            'export() is an observer of outputs / cost / state in both modes.', '3 C18, 0-bis.7'),
    'C19': ('proof', 'Post-conditions of the real BaseRegularizer.__call__ and DUCCIO.__init__/__call__ over all real costs, targets, strengths '
            'and integer schedule positions (non-negativity, zero iff within target, monotone in each excess, schedule shape, definedness of '
            'derived strengths); number of metrics 1..3(4) enumerated, n_epochs enumerated for the non-linear schedule clauses.', '3 C19'),
    'C20': ('other', 'Post-condition of the real _reassign_precisions for all score matrices without ties and all target compositions, sizes up to 3x2 / 2x3 (quick), '
            '3x3 / 2x4 (thorough): bounded in size, exhaustive in values; failing configurations of the unchanged tree are known findings. '
            'optimize_prec_assignment: a bounded check on concrete one-layer models only (promotion only, NE16 cost not higher), labelled bounded.', '3 C20'),
}
NA = {
}

checks = []
for p in props:
    pid = p['id']
    if pid not in CLAIMED:
        continue
    cat, text, ref = CLAIMED[pid]
    checks.append(dict(
        property_id=pid,
        quick_cmd=f'python3-vt -m pyvc.check {pid} --tier quick',
        thorough_cmd=f'python3-vt -m pyvc.check {pid} --tier thorough',
        evidence_file=f'/verif/evidence/{pid}.json',
        replay_cmd_template=f'python3-vt -m pyvc.check {pid} --replay {{path}}',
        engine='pyvc',
        level_claimed=dict(category=cat, text=text, design_ref='DESIGN.md section ' + ref),
        level_note=NOTE,
        technique=TECH,
    ))
na = []
for p in props:
    pid = p['id']
    if pid in CLAIMED:
        continue
    na.append(dict(property_id=pid, reason=NA.get(pid, 'contracts not built yet in this session (see DESIGN.md section 7); not claimed at a lower standard')))

m = dict(
    version=1,
    setup_cmd='python3-vt -c "import z3, sys; sys.path.insert(0, \'/verif\'); import pyvc.check" && /venv/bin/python -c "import torch, plinio"',
    hooks=dict(guard='PLINIO_VERIF',
               enable='no hooks: contracts are side-car files under /verif/contracts, /repo is parsed on every run and never instrumented',
               baseline_off_cmd='cd /repo && /venv/bin/python -m pytest -ra -q -p no:cacheprovider --timeout=900 --continue-on-collection-errors',
               source_commits=[], add_only=True),
    engines=[dict(name='pyvc', path='/verif/pyvc', serves_properties=sorted(CLAIMED),
                  kind_free_text='VC generator over the python AST of the real plinio source (symbolic execution with z3 terms, loop-invariant '
                                 'cuts for unbounded sequences), side-car contracts in /verif/contracts executed symbolically and natively '
                                 '(replay + cross-check), z3 primary / cvc5 secondary')],
    checks=checks,
    notes='Exit codes of every check: 0 all obligations discharged (known findings announced), 1 VIOLATION, 2 undecided, 3 engine failure. '
          'known_findings.json lists recorded defects and the fix: commits made in /repo.',
    not_applicable=na,
)
json.dump(m, open(os.path.join(VERIF, 'MANIFEST.json'), 'w'), indent=1)
print('claimed:', sorted(CLAIMED), 'not applicable:', [x['property_id'] for x in na])
