#!/bin/bash
# Fast run of the repository baseline (132 tests expected to pass; 10 known failures, see /root/.vp/BASELINE.json).
# usage: tools/baseline.sh [repo_dir]   -- bounded threads: unbounded torch threading + xdist oversubscribes the 16 cores
D=${1:-/repo}
cd "$D" && PYTHONPATH="$D" OMP_NUM_THREADS=3 MKL_NUM_THREADS=3 /venv/bin/python -m pytest -q -p no:cacheprovider --timeout=900 \
  --continue-on-collection-errors -n 5 2>&1 | tail -15
