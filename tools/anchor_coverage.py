#!/usr/bin/env python3
"""For every property: which functions of its anchor files had their source executed by the last run of its check
(evidence/<id>.json: functions_executed_from_repo_source) and which did not.  A function that is an anchor of a property and
is never executed by its check cannot be noticed when it changes - this lists those holes."""
import json, ast, os, sys
R = os.environ.get('PYVC_REPO', '/repo')
props = [json.loads(l) for l in open(os.path.join(os.path.dirname(__file__), '..', 'properties.jsonl'))]
only = sys.argv[1:]
for p in props:
    if only and p['id'] not in only: continue
    e = json.load(open(os.path.join(os.path.dirname(__file__), '..', 'evidence', p['id'] + '.json')))
    exfiles = {}
    for x in e['coverage']['functions_executed_from_repo_source']:
        f, fn = x.split(' ')[0].split('::'); exfiles.setdefault(f, set()).add(fn)
    print('=====', p['id'])
    files = []
    for f in p['anchors']['files']:
        path = os.path.join(R, f)
        if os.path.isdir(path):
            for d, _, fs in os.walk(path):
                files += [os.path.relpath(os.path.join(d, x), R) for x in fs if x.endswith('.py')]
        elif f.endswith('.py') and os.path.exists(path): files.append(f)
    for f in files:
        t = ast.parse(open(os.path.join(R, f)).read())
        allf = []
        for n in t.body:
            if isinstance(n, ast.FunctionDef): allf.append(n.name)
            if isinstance(n, ast.ClassDef):
                allf += [n.name + '.' + m.name for m in n.body if isinstance(m, ast.FunctionDef)]
        allf = sorted(set(allf))
        got = exfiles.get(f, set())
        miss = [a for a in allf if a not in got]
        print(f'   {f}: {len(allf)-len(miss)}/{len(allf)} executed; not executed: {miss}')
