#!/usr/bin/env python3
"""validates MANIFEST.json and every evidence file against the schemas in /root/.vp (run with python3-vt)"""
import json, glob, sys
import jsonschema
m = json.load(open('/verif/MANIFEST.json'))
jsonschema.validate(m, json.load(open('/root/.vp/MANIFEST.schema.json')))
es = json.load(open('/root/.vp/EVIDENCE.schema.json'))
bad = 0
for c in m['checks']:
    f = c['evidence_file']
    try:
        jsonschema.validate(json.load(open(f)), es)
    except Exception as e:
        bad += 1
        print('BAD', f, str(e)[:200])
print('manifest ok; checks:', len(m['checks']), 'evidence problems:', bad)
sys.exit(1 if bad else 0)
