#!/bin/bash
# usage: tools/benign_all.sh  - applies the three behaviour-preserving refactor patches together to a scratch worktree and runs every quick check on it:
# every check must exit 0 (a non-zero exit is a false alarm or an engine gap)
cd "$(dirname "$0")/.."
WT=$(mktemp -d /tmp/benign.XXXXXX); rmdir $WT
git -C /repo worktree add -q --detach $WT HEAD || exit 9
for f in tools/benign_refactors.diff tools/benign_refactors2.diff tools/benign_refactors3.diff; do git -C $WT apply $PWD/$f || { echo "cannot apply $f"; git -C /repo worktree remove --force $WT; exit 9; }; done
for p in C01 C02 C03 C04 C05 C06 C07 C08 C09 C10 C11 C12 C13 C14 C15 C16 C17 C18 C19 C20; do
  (PYVC_JOBS=${PYVC_JOBS:-4} PYVC_REPO=$WT PYVC_EVIDENCE_DIR=$WT/.evidence/$p python3-vt -m pyvc.check $p --tier quick > $WT/.out.$p 2>&1; echo "$p exit=$? $(tail -1 $WT/.out.$p | cut -c1-160)") &
done
wait
git -C /repo worktree remove --force $WT
