#!/usr/bin/env python3
"""summarises seeded/matrix.txt: which seeded change is reported (exit=1) by the check of its own property / of another property"""
import collections, os
rows = [l.split() for l in open(os.path.join(os.path.dirname(__file__), '..', 'seeded', 'matrix.txt')) if l.strip()]
own, other, codes = {}, collections.defaultdict(list), collections.defaultdict(dict)
for seed, prop, rc in rows:
    rc = rc.replace('exit=', '')
    codes[seed][prop] = rc
    if prop == seed.split('_')[0]:
        own[seed] = rc
    elif rc == '1':
        other[seed].append(prop)
caught_own = sorted(s for s, rc in own.items() if rc == '1')
caught_other = sorted(s for s in own if own[s] != '1' and other.get(s))
missed = sorted(s for s in own if own[s] != '1' and not other.get(s))
print('seeds:', len(own))
print('caught by own check (%d):' % len(caught_own), ' '.join(caught_own))
print('caught by another check only (%d):' % len(caught_other), ' '.join('%s(%s)' % (s, ','.join(other[s])) for s in caught_other))
print('not caught (%d):' % len(missed), ' '.join('%s[%s]' % (s, own[s]) for s in missed))
