#!/bin/bash
# Runs, for every seeded change under /verif/seeded, the quick check of the property it targets (plus extra checks given as
# "<seed>:<prop>" arguments) on a scratch worktree and records the exit codes in /verif/seeded/matrix.txt
cd /verif
OUT=/verif/seeded/matrix.txt
: > $OUT.tmp
EXTRA="$@"
for d in seeded/*/; do
  id=$(basename $d); prop=${id%%_*}
  props="$prop"
  for e in $EXTRA; do [[ "$e" == $id:* ]] && props="$props ${e#*:}"; done
  for p in $props; do
    rc=$(timeout 1500 tools/try_patch.sh $d/patch.diff $p 2>&1 | grep '^exit=' | tail -1)
    echo "$id $p $rc" | tee -a $OUT.tmp
  done
done
mv $OUT.tmp $OUT
