#!/bin/bash
# Runs, for every seeded change under /verif/seeded, the quick check of the property it targets (plus extra checks given as
# "<seed>:<prop>" arguments) on a scratch worktree and records the exit codes in /verif/seeded/matrix.txt
# (four seeds at a time, four solver jobs each)
cd /verif
OUT=/verif/seeded/matrix.txt
EXTRA="$@"
LIST=$(mktemp)
for d in seeded/*/; do
  id=$(basename $d); prop=${id%%_*}
  props="$prop"
  for e in $EXTRA; do [[ "$e" == $id:* ]] && props="$props ${e#*:}"; done
  for p in $props; do echo "$id $p"; done
done > $LIST
cat $LIST | PYVC_JOBS=4 xargs -P 4 -L 1 bash -c 'rc=$(timeout 1800 tools/try_patch.sh seeded/$0/patch.diff $1 2>&1 | grep "^exit=" | tail -1); echo "$0 $1 $rc"' > $OUT.tmp
sort $OUT.tmp > $OUT; rm -f $OUT.tmp $LIST
cat $OUT
