"""C09 - every layer sees exactly the alive features of the tensor that reaches it (the features calculators).

Functions under contract: plinio/graph/features_calculation.py ConstFeaturesCalculator, ModAttrFeaturesCalculator,
FlattenFeaturesCalculator, ConcatFeaturesCalculator (__init__, features, features_mask, register); the input_features_calculator
setters and in_features_opt of the PIT layers.  The forward BFS that attaches calculators to graph nodes (plinio/graph/annotation.py)
is a torch.fx pass and is not under contract.
"""
import torch
import torch.nn as nn
from plinio.graph.features_calculation import ConstFeaturesCalculator, ModAttrFeaturesCalculator, FlattenFeaturesCalculator, \
    ConcatFeaturesCalculator
from plinio.graph.inspection import is_features_concatenate, is_concatenate
from plinio.methods.pit.nn.conv1d import PITConv1d
from plinio.methods.pit.nn.conv2d import PITConv2d
from plinio.methods.pit.nn.linear import PITLinear
from plinio.methods.pit.nn.features_masker import PITFeaturesMasker
from plinio.methods.pit.nn.timestep_masker import PITTimestepMasker
from plinio.methods.pit.nn.dilation_masker import PITDilationMasker


def _producer(H, c, tag, discrete):
    p = PITConv2d(nn.Conv2d(1, c, 1), PITFeaturesMasker(c), discrete_cost=discrete)
    p.input_features_calculator = ConstFeaturesCalculator(1)
    H.set_(p.out_features_masker.alpha, H.tensor(tag + '.alpha', (c,)))
    return p


def _consumer(kind, cin):
    if kind == 'conv2d':
        return PITConv2d(nn.Conv2d(cin, 2, 1), PITFeaturesMasker(2))
    if kind == 'conv1d':
        return PITConv1d(nn.Conv1d(cin, 2, 1), PITFeaturesMasker(2), PITTimestepMasker(1), PITDilationMasker(1))
    return PITLinear(nn.Linear(cin, 2), PITFeaturesMasker(2))


def h_concat(H, origins, consumer, discrete):
    """channel concatenation of 2..3 tensors of searchable ('s') / fixed ('f') origin feeding one consumer"""
    widths = [2, 3, 1][:len(origins)]
    calcs = []
    prods = []
    for i, (o, w) in enumerate(zip(origins, widths)):
        if o == 's':
            p = _producer(H, w, 'p%d' % i, discrete)
            prods.append(p)
            calcs.append(ModAttrFeaturesCalculator(p, 'out_features_eff', 'features_mask'))
        else:
            prods.append(None)
            calcs.append(ConstFeaturesCalculator(w))
    cons = _consumer(consumer, sum(widths))
    cat = ConcatFeaturesCalculator(calcs)
    cons.input_features_calculator = cat
    exp_feat = 0
    exp_mask = []
    for p, w in zip(prods, widths):
        if p is None:
            exp_feat = H.add(exp_feat, w)
            exp_mask = exp_mask + [1.0] * w
        else:
            exp_feat = H.add(exp_feat, H.scalar(p.out_features_eff))
            exp_mask = exp_mask + H.elements(p.features_mask)
    ifc = cons.input_features_calculator
    H.observe('features', ifc.features)
    H.ensure('concat:features-is-the-sum-of-the-alive-features-of-all-inputs', H.eq(H.scalar(ifc.features), exp_feat))
    H.ensure('concat:mask-is-the-concatenation-of-the-input-masks', H.eq(H.elements(ifc.features_mask), exp_mask))
    H.ensure('concat:exported-input-width-counts-the-alive-features', H.eq(cons.in_features_opt, H.sum(exp_mask)))
    # every constant calculator still reads back its own constant (frame of register)
    for c, w in zip(calcs, widths):
        if H.type_name(c) == 'ConstFeaturesCalculator':
            H.ensure('register:constant-calculators-keep-their-own-constant', H.eq(H.scalar(c.features), w) and H.shape(c.features_mask) == (w,))
    if discrete:
        H.ensure('concat:discrete-features-equals-mask-sum', H.eq(H.scalar(ifc.features), H.sum(exp_mask)))


def h_flatten(H, origin, mult, discrete):
    """flatten of a (C, positions) tensor: features = alive channels x positions, every channel bit repeated `positions` times"""
    c = 3
    if origin == 's':
        p = _producer(H, c, 'p', discrete)
        prev = ModAttrFeaturesCalculator(p, 'out_features_eff', 'features_mask')
        pm = H.elements(p.features_mask)
        pf = H.scalar(p.out_features_eff)
    else:
        prev = ConstFeaturesCalculator(c)
        pm = [1.0] * c
        pf = c
    cons = PITLinear(nn.Linear(c * mult, 2), PITFeaturesMasker(2))
    cons.input_features_calculator = FlattenFeaturesCalculator(prev, mult)
    ifc = cons.input_features_calculator
    H.ensure('flatten:features-is-alive-channels-times-positions', H.eq(H.scalar(ifc.features), H.mul(pf, mult)))
    exp = []
    for b in pm:
        exp = exp + [b] * mult
    H.ensure('flatten:each-channel-bit-repeated-for-its-positions', H.eq(H.elements(ifc.features_mask), exp))
    H.ensure('flatten:exported-input-width', H.eq(cons.in_features_opt, H.sum(exp)))


def h_two_flattens_concat(H, mult):
    """two flattened fixed tensors concatenated in front of a linear layer (buffers must not clash)"""
    a, b = FlattenFeaturesCalculator(ConstFeaturesCalculator(2), mult), FlattenFeaturesCalculator(ConstFeaturesCalculator(3), 1)
    cons = PITLinear(nn.Linear(2 * mult + 3, 2), PITFeaturesMasker(2))
    cons.input_features_calculator = ConcatFeaturesCalculator([a, b])
    H.ensure('concat-of-flattens:features', H.eq(H.scalar(cons.input_features_calculator.features), 2 * mult + 3))
    H.ensure('concat-of-flattens:mask-length', H.shape(cons.input_features_calculator.features_mask) == (2 * mult + 3,))


def h_elementwise_and_depthwise(H, discrete):
    """through element-wise ops / depth-wise convolutions / both sides of a residual sum the consumer sees the producer's alive features"""
    p = _producer(H, 3, 'p', discrete)
    calc = ModAttrFeaturesCalculator(p, 'out_features_eff', 'features_mask')
    cons1, cons2 = _consumer('conv2d', 3), _consumer('conv1d', 3)
    cons1.input_features_calculator = calc
    cons2.input_features_calculator = calc            # the same tensor reaches two consumers (residual)
    for c in (cons1, cons2):
        H.ensure('propagate:consumer-sees-producer-alive-features', H.eq(H.scalar(c.input_features_calculator.features), H.scalar(p.out_features_eff)))
        H.ensure('propagate:consumer-mask-is-producer-mask', H.eq(c.input_features_calculator.features_mask, p.features_mask))
        H.ensure('propagate:exported-width-is-producer-exported-width', c.in_features_opt == p.out_features_opt)


def h_concat_axis(H, dim, as_kwarg):
    """only a concatenation over the channel axis (dim 1) sums input features; any other axis (time / spatial, also written as a
    negative index) leaves the channel count alone"""
    n = H.fx_function_node(torch.cat, 2, () if as_kwarg else (dim,), {'dim': dim} if as_kwarg else {})
    H.ensure('concat-axis:features-concat-only-over-the-channel-axis', is_features_concatenate(n, None) == (dim == 1))
    H.ensure('concat-axis:recognised-as-concatenation', is_concatenate(n, None))
    m = H.fx_function_node(torch.add, 2)
    H.ensure('concat-axis:other-functions-are-not-concatenations', not is_features_concatenate(m, None) and not is_concatenate(m, None))


PROPERTY = {
    'C09': dict(
        level='other',
        explanation='contracts of the four features calculators, their consistency (discrete features == sum of the mask) and the frame of register() '
                    '(one calculator must not overwrite another one\'s buffers), for concatenations of 2..3 searchable / fixed inputs, flatten with '
                    '1..3 positions and shared producers; all channel-mask values symbolic',
        not_decided=['the forward BFS that attaches a calculator to each node by op class (plinio/graph/annotation.py) over ARBITRARY DAGs: it is executed from source, with the '
                     'wiring clause as post-condition, only on the enumerated architectures of contracts/whole_pit.py (bounded in topology)',
                     'exclusion of layers by name / type beyond the three enumerated architectures (concat of excluded layers: holds; a searchable layer summed with / feeding an excluded '
                     'layer: defects found on the unchanged tree, repaired in /repo afa9734)', 'squeeze / unsqueeze rules of the BFS',
                     'MPS: the consumer-is-charged-for-the-alive-channels-of-its-producer clause on the enumerated models of contracts/whole_mps.py only'],
        assumptions=['in the calculator-level harnesses which calculator a layer is wired to is taken as given (hypothesis H-calc); the whole-model harnesses discharge it for their architectures'],
    ),
}

_B = (True, False)
_G = 'plinio/graph/features_calculation.py::'
HARNESSES = [
    dict(name='concat', fn='h_concat', property=['C09'],
         functions=[_G + 'ConcatFeaturesCalculator.' + f for f in ('__init__', 'features', 'features_mask', 'register')] +
                   [_G + 'ConstFeaturesCalculator.' + f for f in ('__init__', 'features', 'features_mask', 'register')] +
                   [_G + 'ModAttrFeaturesCalculator.' + f for f in ('__init__', 'features', 'features_mask', 'register')],
         quick=[dict(origins=o, consumer=c, discrete=d) for o in ('ss', 'sf', 'ff', 'fsf', 'fff') for c, d in (('conv2d', True), ('linear', False))],
         thorough=[dict(origins=o, consumer=c, discrete=d) for o in ('ss', 'sf', 'fs', 'ff', 'sss', 'fsf', 'ffs', 'fff') for c in ('conv2d', 'conv1d', 'linear') for d in _B]),
    dict(name='flatten', fn='h_flatten', property=['C09'],
         functions=[_G + 'FlattenFeaturesCalculator.' + f for f in ('__init__', 'features', 'features_mask', 'register')],
         quick=[dict(origin=o, mult=m, discrete=d) for o in 'sf' for m in (1, 2, 3) for d in _B],
         thorough=[dict(origin=o, mult=m, discrete=d) for o in 'sf' for m in (1, 2, 3, 4) for d in _B]),
    dict(name='two-flattens-concat', fn='h_two_flattens_concat', property=['C09'], functions=[_G + 'FlattenFeaturesCalculator.register', _G + 'ConcatFeaturesCalculator.register'],
         quick=[dict(mult=2), dict(mult=1)], thorough=[dict(mult=m) for m in (1, 2, 3)]),
    dict(name='concat-axis', fn='h_concat_axis', property=['C09'],
         functions=['plinio/graph/inspection.py::is_features_concatenate', 'plinio/graph/inspection.py::is_concatenate', 'plinio/graph/utils.py::try_get_args'],
         quick=[dict(dim=d, as_kwarg=k) for d in (0, 1, 2, 3, -1, -2) for k in _B], thorough=[dict(dim=d, as_kwarg=k) for d in (0, 1, 2, 3, -1, -2, -3) for k in _B]),
    dict(name='propagate', fn='h_elementwise_and_depthwise', property=['C09'], functions=[_G + 'ModAttrFeaturesCalculator.features', _G + 'ModAttrFeaturesCalculator.features_mask'],
         quick=[dict(discrete=d) for d in _B], thorough=[dict(discrete=d) for d in _B]),
]
