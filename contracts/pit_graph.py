"""PIT graph pass that decides which layers share a width mask and which widths are frozen (serves C08, C01, C09).

Function under contract: plinio/methods/pit/graph.py build_shared_features_map (with plinio/graph/utils.py fx_to_nx_graph and
plinio/graph/inspection.py get_graph_inputs / get_graph_outputs inlined).  The graph is given as torch.fx nodes whose `meta` flags
(features_defining / untouchable / features_concatenate, tensor_meta) are what the annotation passes produce - hypothesis H-meta:
the flags themselves are not verified.  networkx is used through four generic digraph operations (assumed library contract).
Small topologies are enumerated; there are no symbolic values here (the pass is purely structural), so the claim is per topology.
"""
from plinio.methods.pit.graph import build_shared_features_map
from plinio.graph.inspection import named_leaf_modules, uniquify_leaf_modules, shapes_dict


class TM:
    """stand-in for torch.fx TensorMetadata: a shape and a length (7 fields)"""
    def __init__(self, shape):
        self.shape = shape

    def __len__(self):
        return 7


def _n(name, op, inputs, channels, defining=False, untouchable=False, concat=False):
    return (name, op, inputs, {'features_defining': defining, 'untouchable': untouchable, 'features_concatenate': concat,
                               'tensor_meta': TM((1, channels, 4))})


TOPOLOGIES = {
    # x -> conv0 -> relu -> conv1 -> out : conv0 searchable, conv1 tied to the output
    'chain': ([_n('x', 'placeholder', [], 3), _n('conv0', 'call_module', ['x'], 8, defining=True), _n('relu', 'call_function', ['conv0'], 8),
               _n('conv1', 'call_module', ['relu'], 5, defining=True), _n('out', 'output', ['conv1'], 5)],
              {'conv0': ('free', 8), 'relu': ('same', 'conv0'), 'conv1': ('frozen', 5)}),
    # last searchable layer reaches the output through width-preserving ops (pool, flatten): must stay frozen
    'head-through-pool-and-flatten': ([_n('x', 'placeholder', [], 3), _n('conv0', 'call_module', ['x'], 8, defining=True),
                                       _n('conv1', 'call_module', ['conv0'], 5, defining=True), _n('pool', 'call_module', ['conv1'], 5),
                                       _n('flat', 'call_function', ['pool'], 5), _n('out', 'output', ['flat'], 5)],
                                      {'conv0': ('free', 8), 'conv1': ('frozen', 5), 'pool': ('same', 'conv1'), 'flat': ('same', 'conv1')}),
    # residual sum: both addends and the sum share one mask
    'residual': ([_n('x', 'placeholder', [], 3), _n('conv0', 'call_module', ['x'], 8, defining=True), _n('conv1', 'call_module', ['conv0'], 8, defining=True),
                  _n('add', 'call_function', ['conv0', 'conv1'], 8), _n('conv2', 'call_module', ['add'], 5, defining=True), _n('out', 'output', ['conv2'], 5)],
                 {'conv0': ('free', 8), 'conv1': ('same', 'conv0'), 'add': ('same', 'conv0'), 'conv2': ('frozen', 5)}),
    # residual sum with the network input: the addend is tied to the input width
    'residual-with-input': ([_n('x', 'placeholder', [], 8), _n('conv0', 'call_module', ['x'], 8, defining=True), _n('add', 'call_function', ['x', 'conv0'], 8),
                             _n('conv1', 'call_module', ['add'], 5, defining=True), _n('out', 'output', ['conv1'], 5)],
                            {'conv0': ('frozen', 8), 'add': ('same', 'conv0'), 'conv1': ('frozen', 5)}),
    # channel concat cuts the sharing: both operands keep independent masks
    'concat': ([_n('x', 'placeholder', [], 3), _n('conv0', 'call_module', ['x'], 4, defining=True), _n('conv1', 'call_module', ['x'], 6, defining=True),
                _n('cat', 'call_function', ['conv0', 'conv1'], 10, concat=True), _n('conv2', 'call_module', ['cat'], 5, defining=True),
                _n('out', 'output', ['conv2'], 5)],
               {'conv0': ('free', 4), 'conv1': ('free', 6), 'conv2': ('frozen', 5)}),
}


def h_shared_map(H, topo):
    spec, expect = TOPOLOGIES[topo]
    gm, nodes = H.fx_graph(spec)
    sm = build_shared_features_map(gm)
    for name, (kind, arg) in expect.items():
        m = sm[nodes[name]]
        if kind == 'same':
            H.ensure('sharing:nodes-that-must-keep-equal-width-share-one-masker', H.same_object(m, sm[nodes[arg]]))
        else:
            H.ensure('sharing:masker-width-is-the-layer-width', m.out_channels == arg)
            H.ensure('sharing:widths-tied-to-network-inputs-or-outputs-are-frozen-others-searchable',
                     H.type_name(m) == ('PITFrozenFeaturesMasker' if kind == 'frozen' else 'PITFeaturesMasker'))
    distinct = [n for n, (k, a) in expect.items() if k != 'same']
    H.ensure('sharing:independent-layers-get-independent-maskers',
             all(not H.same_object(sm[nodes[a]], sm[nodes[b]]) for i, a in enumerate(distinct) for b in distinct[:i]))


def h_named_leaf_modules(H):
    """per-invocation metrics need one entry per call site, each with the node (hence the output shape) of THAT invocation"""
    def tm(c, l):
        return {'tensor_meta': TM((1, c, l))}
    spec = [('x', 'placeholder', [], tm(3, 16)), ('a', 'call_module', ['x'], tm(3, 16)), ('pool', 'call_module', ['a'], tm(3, 8)),
            ('a@2', 'call_module', ['pool'], tm(3, 8)), ('fc', 'call_module', ['a@2'], tm(3, 8)), ('out', 'output', ['fc'], tm(3, 8))]
    gm, nodes = H.fx_graph(spec)
    nlf = named_leaf_modules(gm)
    H.ensure('leaf-modules:one-entry-per-invocation-in-call-order', [e[0] for e in nlf] == ['a', 'pool', 'a', 'fc'])
    H.ensure('leaf-modules:each-entry-carries-its-own-invocation-node',
             H.same_object(nlf[0][1], nodes['a']) and H.same_object(nlf[2][1], nodes['a@2']) and H.same_object(nlf[1][1], nodes['pool']))
    H.ensure('leaf-modules:each-invocation-has-its-own-output-shape',
             shapes_dict(nlf[0][1])['output_shape'] == (1, 3, 16) and shapes_dict(nlf[2][1])['output_shape'] == (1, 3, 8))
    H.ensure('leaf-modules:same-module-object-for-both-invocations', H.same_object(nlf[0][2], nlf[2][2]))
    ulf = uniquify_leaf_modules(nlf)
    H.ensure('leaf-modules:unique-list-keeps-the-first-invocation-of-each-layer', [e[0] for e in ulf] == ['a', 'pool', 'fc'] and H.same_object(ulf[0][1], nodes['a']))


PROPERTY = {}

HARNESSES = [
    dict(name='named-leaf-modules', bounded='enumerated graph topologies', fn='h_named_leaf_modules', property=['C04', 'C05', 'C06'],
         functions=['plinio/graph/inspection.py::named_leaf_modules', 'plinio/graph/inspection.py::uniquify_leaf_modules', 'plinio/graph/inspection.py::shapes_dict',
                    'plinio/graph/utils.py::fx_to_nx_graph'], quick=[{}], thorough=[{}]),
    dict(name='shared-features-map', bounded='enumerated graph topologies', fn='h_shared_map', property=['C08', 'C01', 'C09', 'C11'],
         functions=['plinio/methods/pit/graph.py::build_shared_features_map', 'plinio/graph/utils.py::fx_to_nx_graph', 'plinio/graph/inspection.py::get_graph_inputs',
                    'plinio/graph/inspection.py::get_graph_outputs'],
         quick=[dict(topo=t) for t in ('chain', 'head-through-pool-and-flatten', 'residual', 'residual-with-input', 'concat')],
         thorough=[dict(topo=t) for t in ('chain', 'head-through-pool-and-flatten', 'residual', 'residual-with-input', 'concat')]),
]
