"""C14 - integer (MATCH / MAUPITI) layers: the contract-expressible clauses.

Functions under contract: plinio/methods/mps/quant/backends/utils.py binary_search (recursive contract: inner calls are checked
against the contract, not inlined); backends/match/nn/conv2d.py MATCHConv2d.__init__/forward/_integer_approximation/
_check_dil_kernel_combination/_pad_dilation_in_weight/clip_inf/clip_sup; backends/match/nn/linear.py MATCHLinear.__init__/forward/
_integer_approximation.
"""
import torch
import torch.nn as nn
from plinio.methods.mps.quant.backends.utils import binary_search
from plinio.methods.mps.quant.backends.match.nn.conv2d import MATCHConv2d
from plinio.methods.mps.quant.backends.match.nn.linear import MATCHLinear
from plinio.methods.mps.quant.backends.maupiti.nn.conv2d import MAUPITIConv2d
from plinio.methods.mps.quant.quantizers import PACTAct, MinMaxWeight, QuantizerBias, DummyQuantizer

_UTILS = 'plinio.methods.mps.quant.backends.utils'
_REAL_BS = binary_search


def _bs_post(H, div, low, high, x, r):
    """r is the least m in [low, high] with x <= m*div, else high"""
    return H.and_(r >= low, r <= high,
                  H.or_(r == high, x <= r * div),
                  H.or_(r == low, (r - 1) * div < x))


def h_binary_search(H, div):
    """one unfolding of the real body; the recursive calls are replaced by the contract (pre-condition asserted, result assumed to
    satisfy the post-condition, measure high-low strictly decreases) - an unbounded proof by induction on high - low"""
    low, high = H.int('low'), H.int('high')
    x = H.real('x')
    H.assume(H.and_(low <= high, low >= 1))
    if H.symbolic:
        calls = []

        def contract(d, lo, hi, xx):
            H.ensure('binary_search:recursive-call-meets-precondition', H.and_(lo <= hi, lo >= 1, d == div), 'pre-call')
            H.ensure('binary_search:measure-decreases', H.and_(hi - lo < high - low, hi - lo >= 0), 'decreases')
            r = H.fresh_int('bs_result')
            H.assume(_bs_post(H, d, lo, hi, xx, r))
            return r
        H.patch(_UTILS, 'binary_search', contract)
    r = _REAL_BS(div, low, high, x)
    H.observe('r', r)
    H.ensure('binary_search:result-in-range-and-least-upper-multiple', _bs_post(H, div, low, high, x, r))


def h_integer_approximation(H, which, scale_bit, shift_pos, C):
    """B2: scale integers in [1, 2^(scale_bit-1)], shift in [0, shift_pos), bias x scale within int32, approximation error bound.
    binary_search is used through its contract (proved in h_binary_search)"""
    cls = MATCHConv2d if which == 'conv2d' else MATCHLinear
    s_w = H.tensor('s_w', (C,))
    s_x = H.tensor('s_x', ())
    s_y = H.tensor('s_y', ())
    bias = H.itensor('int_bias', (C,))
    H.assume(H.and_(H.gt(s_w, 0), H.gt(s_x, 0), H.gt(s_y, 0)))
    bmax = 2 ** (32 - scale_bit)            # even the largest admissible scale cannot overflow 32 bits: a valid (scale, shift) exists
    for b in H.elements(bias):
        H.assume(H.and_(b >= -bmax, b <= bmax - 1))
    if H.symbolic:
        def contract(d, lo, hi, xx):
            r = H.fresh_int('bs_result')
            H.assume(_bs_post(H, d, lo, hi, xx, r))
            return r
        H.patch('plinio.methods.mps.quant.backends.match.nn.conv2d' if which == 'conv2d' else 'plinio.methods.mps.quant.backends.match.nn.linear',
                'binary_search', contract)
    obj = H.bare(cls)
    obj.scale_bit = scale_bit
    obj.shift_pos = shift_pos
    scale, shift = obj._integer_approximation(s_w, s_x, s_y, bias)
    H.observe('scale', scale)
    H.observe('shift', shift)
    sh = H.scalar(shift[0])
    H.ensure('approx:shift-within-declared-range', H.and_(H.is_integer(sh), sh >= 0, sh < shift_pos))
    ub = 2 ** (scale_bit - 1)
    for c in range(C):
        sc = H.elements(scale)[c]
        H.ensure('approx:scale-is-a-positive-integer-within-scale-bits', H.and_(H.is_integer(sc), sc >= 1, sc <= ub))
        H.ensure('approx:scaled-bias-fits-32-bits', H.and_(H.mul(sc, H.elements(bias)[c]) <= 2 ** 31 - 1, H.mul(sc, H.elements(bias)[c]) >= -(2 ** 31)))


def h_pad_dilation(H, k, d, axis):
    """B4: _pad_dilation_in_weight puts tap i at position i*d of the dilated axis and zeros elsewhere"""
    conv = nn.Conv2d(1, 1, (k, 1) if axis == 0 else (1, k), dilation=(d, 1) if axis == 0 else (1, d))
    obj = H.bare(MATCHConv2d)
    obj.out_channels, obj.in_channels = 1, 1
    w = H.tensor('w', (1, 1, k, 1) if axis == 0 else (1, 1, 1, k))
    obj.weight = nn.Parameter(w)
    out = obj._pad_dilation_in_weight(d, k, axis)
    n = k * d - (d - 1)
    H.ensure('pad-dilation:shape', H.shape(out) == ((1, 1, n, 1) if axis == 0 else (1, 1, 1, n)))
    flat = H.elements(out)
    ws = H.elements(w)
    H.ensure('pad-dilation:taps-at-multiples-of-the-dilation-zeros-elsewhere',
             H.and_(*[H.eq(flat[j], ws[j // d] if j % d == 0 else 0) for j in range(n)]))


def h_match_forward_range(H, which, p_out):
    """B5: requantised MATCH output is an integer in [0, 2^p - 1] for arbitrary integer accumulators / scales / shifts"""
    cls = MATCHConv2d if which == 'conv2d' else MATCHLinear
    obj = H.bare(cls)
    if which == 'conv2d':
        obj.in_channels, obj.out_channels, obj.kernel_size, obj.stride, obj.padding, obj.dilation, obj.groups = 1, 1, (1, 1), (1, 1), (0, 0), (1, 1), 1
        obj.weight = nn.Parameter(H.itensor('w', (1, 1, 1, 1)).float())
        x = H.itensor('x', (1, 1, 1, 2)).float()
        obj.scale = H.itensor('scale', (1, 1, 1, 1)).float()
        obj.add_bias = H.itensor('add_bias', (1, 1, 1, 1)).float()
    else:
        obj.in_features, obj.out_features = 1, 1
        obj.weight = nn.Parameter(H.itensor('w', (1, 1)).float())
        x = H.itensor('x', (1, 1)).float()
        obj.scale = H.itensor('scale', (1, 1)).float()
        obj.add_bias = H.itensor('add_bias', (1, 1)).float()
    obj.bias = None
    obj.last_layer = False
    sh = H.int('shift')
    H.assume(H.and_(sh >= 0, sh <= 4))
    obj.shift = H.concretize(sh)
    obj.skip_requant = False
    obj.out_quantizer = PACTAct(p_out)
    y = obj(x)
    for e in H.elements(y):
        H.ensure('match-forward:integer-in-unsigned-activation-range', H.and_(H.is_integer(e), H.ge(e, 0), H.le(e, 2 ** p_out - 1)))
    acc = H.mul(H.elements(obj.weight)[0], H.elements(x)[0])
    exact = H.div(H.add(H.mul(acc, H.elements(obj.scale)[0]), H.elements(obj.add_bias)[0]), 2 ** obj.shift)
    inside = H.and_(H.ge(exact, 0), H.le(exact, 2 ** p_out - 1))
    H.ensure('match-forward:floor-based-requantisation', H.implies(inside, H.and_(H.le(H.elements(y)[0], exact), H.gt(H.elements(y)[0], H.sub(exact, 1)))))


def h_match_ctor(H, which, bias):
    """B3: the constructors are defined with and without bias; stored integers are in the declared ranges"""
    cout = 1
    if which == 'conv2d':
        lin = nn.Conv2d(1, cout, 1, bias=bias)
    else:
        lin = nn.Linear(1, cout, bias=bias)
    w = H.tensor('w', H.shape(lin.weight))
    H.assume(H.and_(H.ge(H.abs(H.elements(w)[0]), 0.1), H.le(H.abs(H.elements(w)[0]), 10)))      # ordinary magnitudes
    H.set_(lin.weight, w)
    if bias:
        b = H.tensor('b', (cout,))
        H.assume(H.le(H.abs(H.elements(b)[0]), 10))
        H.set_(lin.bias, b)
    in_q, out_q = PACTAct(8), PACTAct(8)
    w_q = MinMaxWeight(4, cout)
    b_q = QuantizerBias(32, cout) if bias else None
    if H.symbolic:
        def contract(d, lo, hi, xx):
            r = H.fresh_int('bs_result')
            H.assume(_bs_post(H, d, lo, hi, xx, r))
            return r
        H.patch('plinio.methods.mps.quant.backends.match.nn.conv2d' if which == 'conv2d' else 'plinio.methods.mps.quant.backends.match.nn.linear',
                'binary_search', contract)
    cls = MATCHConv2d if which == 'conv2d' else MATCHLinear
    layer = cls(lin, in_q, out_q, w_q, b_q, scale_bit=4, shift_pos=2)
    for e in H.elements(layer.weight):
        H.ensure('match-ctor:stored-weights-are-integers-in-the-signed-range', H.and_(H.is_integer(e), H.ge(e, -8), H.le(e, 7)))
    H.ensure('match-ctor:shift-within-declared-range', H.and_(H.ge(H.scalar(layer.shift[0]), 0), H.lt(H.scalar(layer.shift[0]), 2)))
    x = H.itensor('x', (1, 1, 1, 1) if which == 'conv2d' else (1, 1)).float()
    y = layer(x)
    for e in H.elements(y):
        H.ensure('match-ctor:forward-defined-and-in-range', H.and_(H.is_integer(e), H.ge(e, 0), H.le(e, 255)))


def h_maupiti_shared_quantizer(H, wa, wb):
    """BOUNDED (concrete values): two MAUPITI layers built one after the other with the SAME stateful weight quantizer (what the conversion does
    for a convolution followed by a depthwise convolution): the second layer must use the scale of ITS OWN weights; stored integers in range"""
    ca, cb = nn.Conv2d(1, 1, 1), nn.Conv2d(1, 1, 1)
    H.set_(ca.weight, H.const_tensor([[[[wa]]]]))
    H.set_(cb.weight, H.const_tensor([[[[wb]]]]))
    H.set_(ca.bias, H.const_tensor([0.25]))
    H.set_(cb.bias, H.const_tensor([0.25]))
    w_q = MinMaxWeight(4, 1)
    MAUPITIConv2d(ca, PACTAct(8), PACTAct(8), w_q, QuantizerBias(32, 1))
    lb = MAUPITIConv2d(cb, PACTAct(8), PACTAct(8), w_q, QuantizerBias(32, 1))
    ref = MinMaxWeight(4, 1)
    ref(cb.weight)
    H.observe('s_w', lb.s_w)
    H.ensure('maupiti-ctor:weight-scale-is-the-scale-of-this-layers-own-weights', H.eq(lb.s_w, ref.scale))
    H.ensure('maupiti-ctor:stored-weight-is-an-integer-in-the-signed-range',
             H.and_(*[H.and_(H.is_integer(e), H.ge(e, -8), H.le(e, 7)) for e in H.elements(lb.weight)]))
    H.ensure('maupiti-ctor:scale-below-2^15-and-shift-in-range',
             H.and_(H.lt(H.scalar(lb.scale.flatten()[0]), 2 ** 15), H.ge(H.scalar(lb.shift), 0), H.lt(H.scalar(lb.shift), 32)))


PROPERTY = {
    'C14': dict(
        level='other',
        explanation='the contract-expressible clauses of the integer back ends: binary_search (unbounded, recursive contract), range clauses of '
                    '_integer_approximation (binary_search used through its contract), dilation padding of weights, floor-based requantisation '
                    'range of the MATCH forward, definedness of the MATCH constructors with and without bias',
        not_decided=['integerize_arch (torch.fx graph rewrite)', 'per-layer reproduction of the fake-quantized network to within one level (needs the layer '
                     'wiring and the shared stateful quantizers)', 'MAUPITI layers for symbolic values: _integer_approximation hard-codes 16 scale bits x 32 shifts, the selection loop forks per shift (2^32 paths) - '
                     'only a BOUNDED check on concrete values (maupiti-shared-quantizer: two layers sharing a stateful weight quantizer) is run, labelled bounded; zero-point compensation', 'last-layer logits clause'],
        assumptions=['scale_bit / shift_pos enumerated small for the selection loop of _integer_approximation (each candidate shift forks the path)',
                     'integer bias magnitude below 2^(32 - scale_bit): otherwise every candidate shift overflows and the selection returns None (torch.tensor(None) raises) - the regime where no valid answer exists is outside the clause'],
    ),
}

_B = (True, False)
_BK = 'plinio/methods/mps/quant/backends/'
HARNESSES = [
    dict(name='maupiti-shared-quantizer', bounded='concrete values (two weight magnitudes per configuration), not symbolic', fn='h_maupiti_shared_quantizer', property=['C14'], functions=[_BK + 'maupiti/nn/conv2d.py::MAUPITIConv2d.__init__', _BK + 'maupiti/nn/conv2d.py::MAUPITIConv2d._integer_approximation'],
         quick=[dict(wa=4.0, wb=0.5), dict(wa=0.25, wb=2.0)], thorough=[dict(wa=a, wb=b) for a in (4.0, 0.25, 1.0) for b in (0.5, 2.0, 1.0)], timeout=60, crosscheck=1),
    dict(name='binary-search', fn='h_binary_search', property=['C14'], functions=[_BK + 'utils.py::binary_search'],
         quick=[dict(div=d) for d in (1, 0.5, 0.25, 2 ** -10, 2 ** -23)], thorough=[dict(div=2 ** -s) for s in range(0, 32)], crosscheck=0),
    dict(name='integer-approximation', fn='h_integer_approximation', property=['C14'],
         functions=[_BK + 'match/nn/conv2d.py::MATCHConv2d._integer_approximation', _BK + 'match/nn/linear.py::MATCHLinear._integer_approximation'],
         quick=[dict(which=w, scale_bit=4, shift_pos=2, C=1) for w in ('conv2d', 'linear')] + [dict(which='conv2d', scale_bit=8, shift_pos=3, C=2)],
         thorough=[dict(which=w, scale_bit=sb, shift_pos=sp, C=c) for w in ('conv2d', 'linear') for sb in (4, 8, 24) for sp in (1, 2, 3, 4) for c in (1, 2)],
         timeout=60, crosscheck=0),
    dict(name='pad-dilation', fn='h_pad_dilation', property=['C14'], functions=[_BK + 'match/nn/conv2d.py::MATCHConv2d._pad_dilation_in_weight'],
         quick=[dict(k=k, d=d, axis=a) for k, d in ((2, 2), (3, 2), (2, 3)) for a in (0, 1)],
         thorough=[dict(k=k, d=d, axis=a) for k in (1, 2, 3, 4) for d in (1, 2, 3, 4) for a in (0, 1)]),
    dict(name='match-forward-range', fn='h_match_forward_range', property=['C14'],
         functions=[_BK + 'match/nn/conv2d.py::MATCHConv2d.forward', _BK + 'match/nn/conv2d.py::MATCHConv2d.clip_inf', _BK + 'match/nn/conv2d.py::MATCHConv2d.clip_sup',
                    _BK + 'match/nn/linear.py::MATCHLinear.forward'],
         quick=[dict(which=w, p_out=p) for w in ('conv2d', 'linear') for p in (2, 8)], thorough=[dict(which=w, p_out=p) for w in ('conv2d', 'linear') for p in (2, 4, 8)]),
    dict(name='match-ctor', fn='h_match_ctor', property=['C14'],
         functions=[_BK + 'match/nn/conv2d.py::MATCHConv2d.__init__', _BK + 'match/nn/linear.py::MATCHLinear.__init__'],
         quick=[dict(which=w, bias=b) for w in ('conv2d', 'linear') for b in _B], thorough=[dict(which=w, bias=b) for w in ('conv2d', 'linear') for b in _B],
         timeout=60, crosscheck=0),
]
