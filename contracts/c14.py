"""C14 - integer (MATCH / MAUPITI) layers: the contract-expressible clauses.

Functions under contract: plinio/methods/mps/quant/backends/utils.py binary_search (recursive contract: inner calls are checked
against the contract, not inlined); backends/match/nn/conv2d.py MATCHConv2d.__init__/forward/_integer_approximation/
_check_dil_kernel_combination/_pad_dilation_in_weight/clip_inf/clip_sup; backends/match/nn/linear.py MATCHLinear.__init__/forward/
_integer_approximation.
"""
import torch
import torch.nn as nn
from plinio.methods.mps.quant.backends.utils import binary_search
from plinio.methods.mps.quant.backends.match.nn.conv2d import MATCHConv2d
from plinio.methods.mps.quant.backends.match.nn.linear import MATCHLinear
from plinio.methods.mps.quant.backends.maupiti.nn.conv2d import MAUPITIConv2d
from plinio.methods.mps.quant.backends.maupiti.nn.linear import MAUPITILinear
from plinio.methods.mps.quant.nn.conv2d import QuantConv2d
from plinio.methods.mps.quant.nn.linear import QuantLinear
from plinio.methods.mps.quant.backends.base import integerize_arch, Backend
from plinio.methods.mps.mps import MPS, get_default_qinfo
from plinio.methods.mps.quant.quantizers import PACTAct, MinMaxWeight, QuantizerBias, DummyQuantizer

_UTILS = 'plinio.methods.mps.quant.backends.utils'
_REAL_BS = binary_search


def _bs_post(H, div, low, high, x, r):
    """r is the least m in [low, high] with x <= m*div, else high"""
    return H.and_(r >= low, r <= high,
                  H.or_(r == high, x <= r * div),
                  H.or_(r == low, (r - 1) * div < x))


def h_binary_search(H, div):
    """one unfolding of the real body; the recursive calls are replaced by the contract (pre-condition asserted, result assumed to
    satisfy the post-condition, measure high-low strictly decreases) - an unbounded proof by induction on high - low"""
    low, high = H.int('low'), H.int('high')
    x = H.real('x')
    H.assume(H.and_(low <= high, low >= 1))
    if H.symbolic:
        calls = []

        def contract(d, lo, hi, xx):
            H.ensure('binary_search:recursive-call-meets-precondition', H.and_(lo <= hi, lo >= 1, d == div), 'pre-call')
            H.ensure('binary_search:measure-decreases', H.and_(hi - lo < high - low, hi - lo >= 0), 'decreases')
            r = H.fresh_int('bs_result')
            H.assume(_bs_post(H, d, lo, hi, xx, r))
            return r
        H.patch(_UTILS, 'binary_search', contract)
    r = _REAL_BS(div, low, high, x)
    H.observe('r', r)
    H.ensure('binary_search:result-in-range-and-least-upper-multiple', _bs_post(H, div, low, high, x, r))


def h_integer_approximation(H, which, scale_bit, shift_pos, C, small_bias=True):
    """B2: scale integers in [1, 2^(scale_bit-1)], shift in [0, shift_pos), bias x scale within int32, approximation error bound.
    binary_search is used through its contract (proved in h_binary_search)"""
    cls = MATCHConv2d if which == 'conv2d' else MATCHLinear
    s_w = H.tensor('s_w', (C,))
    s_x = H.tensor('s_x', ())
    s_y = H.tensor('s_y', ())
    bias = H.itensor('int_bias', (C,))
    H.assume(H.and_(H.gt(s_w, 0), H.gt(s_x, 0), H.gt(s_y, 0)))
    bmax = 2 ** (32 - scale_bit) if small_bias else 2 ** 31     # small: even the largest admissible scale cannot overflow 32 bits, a valid (scale, shift) always
    for b in H.elements(bias):                                  # exists; otherwise any 32-bit integer bias: candidates whose scaled bias overflows must be rejected
        H.assume(H.and_(b >= -bmax, b <= bmax - 1))
    if H.symbolic:
        def contract(d, lo, hi, xx):
            r = H.fresh_int('bs_result')
            H.assume(_bs_post(H, d, lo, hi, xx, r))
            return r
        H.patch('plinio.methods.mps.quant.backends.match.nn.conv2d' if which == 'conv2d' else 'plinio.methods.mps.quant.backends.match.nn.linear',
                'binary_search', contract)
    obj = H.bare(cls)
    obj.scale_bit = scale_bit
    obj.shift_pos = shift_pos
    if small_bias:
        scale, shift = obj._integer_approximation(s_w, s_x, s_y, bias)
    else:
        try:
            scale, shift = obj._integer_approximation(s_w, s_x, s_y, bias)
        except RuntimeError:
            return                  # every candidate shift overflows: the selection has nothing to return (torch.tensor(None) raises) - outside the clause
    H.observe('scale', scale)
    H.observe('shift', shift)
    sh = H.scalar(shift[0])
    H.ensure('approx:shift-within-declared-range', H.and_(H.is_integer(sh), sh >= 0, sh < shift_pos))
    ub = 2 ** (scale_bit - 1)
    for c in range(C):
        sc = H.elements(scale)[c]
        H.ensure('approx:scale-is-a-positive-integer-within-scale-bits', H.and_(H.is_integer(sc), sc >= 1, sc <= ub))
        H.ensure('approx:scaled-bias-fits-32-bits', H.and_(H.mul(sc, H.elements(bias)[c]) <= 2 ** 31 - 1, H.mul(sc, H.elements(bias)[c]) >= -(2 ** 31)))


def h_pad_dilation(H, k, d, axis):
    """B4: _pad_dilation_in_weight puts tap i at position i*d of the dilated axis and zeros elsewhere"""
    conv = nn.Conv2d(1, 1, (k, 1) if axis == 0 else (1, k), dilation=(d, 1) if axis == 0 else (1, d))
    obj = H.bare(MATCHConv2d)
    obj.out_channels, obj.in_channels = 1, 1
    w = H.tensor('w', (1, 1, k, 1) if axis == 0 else (1, 1, 1, k))
    obj.weight = nn.Parameter(w)
    out = obj._pad_dilation_in_weight(d, k, axis)
    n = k * d - (d - 1)
    H.ensure('pad-dilation:shape', H.shape(out) == ((1, 1, n, 1) if axis == 0 else (1, 1, 1, n)))
    flat = H.elements(out)
    ws = H.elements(w)
    H.ensure('pad-dilation:taps-at-multiples-of-the-dilation-zeros-elsewhere',
             H.and_(*[H.eq(flat[j], ws[j // d] if j % d == 0 else 0) for j in range(n)]))


def h_match_forward_range(H, which, p_out):
    """B5: requantised MATCH output is an integer in [0, 2^p - 1] for arbitrary integer accumulators / scales / shifts"""
    cls = MATCHConv2d if which == 'conv2d' else MATCHLinear
    obj = H.bare(cls)
    if which == 'conv2d':
        obj.in_channels, obj.out_channels, obj.kernel_size, obj.stride, obj.padding, obj.dilation, obj.groups = 1, 1, (1, 1), (1, 1), (0, 0), (1, 1), 1
        obj.weight = nn.Parameter(H.itensor('w', (1, 1, 1, 1)).float())
        x = H.itensor('x', (1, 1, 1, 2)).float()
        obj.scale = H.itensor('scale', (1, 1, 1, 1)).float()
        obj.add_bias = H.itensor('add_bias', (1, 1, 1, 1)).float()
    else:
        obj.in_features, obj.out_features = 1, 1
        obj.weight = nn.Parameter(H.itensor('w', (1, 1)).float())
        x = H.itensor('x', (1, 1)).float()
        obj.scale = H.itensor('scale', (1, 1)).float()
        obj.add_bias = H.itensor('add_bias', (1, 1)).float()
    obj.bias = None
    obj.last_layer = False
    sh = H.int('shift')
    H.assume(H.and_(sh >= 0, sh <= 4))
    obj.shift = H.concretize(sh)
    obj.skip_requant = False
    obj.out_quantizer = PACTAct(p_out)
    y = obj(x)
    for e in H.elements(y):
        H.ensure('match-forward:integer-in-unsigned-activation-range', H.and_(H.is_integer(e), H.ge(e, 0), H.le(e, 2 ** p_out - 1)))
    acc = H.mul(H.elements(obj.weight)[0], H.elements(x)[0])
    exact = H.div(H.add(H.mul(acc, H.elements(obj.scale)[0]), H.elements(obj.add_bias)[0]), 2 ** obj.shift)
    inside = H.and_(H.ge(exact, 0), H.le(exact, 2 ** p_out - 1))
    H.ensure('match-forward:floor-based-requantisation', H.implies(inside, H.and_(H.le(H.elements(y)[0], exact), H.gt(H.elements(y)[0], H.sub(exact, 1)))))


def h_match_ctor(H, which, bias):
    """B3: the constructors are defined with and without bias; stored integers are in the declared ranges"""
    cout = 1
    if which == 'conv2d':
        lin = nn.Conv2d(1, cout, 1, bias=bias)
    else:
        lin = nn.Linear(1, cout, bias=bias)
    w = H.tensor('w', H.shape(lin.weight))
    H.assume(H.and_(H.ge(H.abs(H.elements(w)[0]), 0.1), H.le(H.abs(H.elements(w)[0]), 10)))      # ordinary magnitudes
    H.set_(lin.weight, w)
    if bias:
        b = H.tensor('b', (cout,))
        H.assume(H.le(H.abs(H.elements(b)[0]), 10))
        H.set_(lin.bias, b)
    in_q, out_q = PACTAct(8), PACTAct(8)
    w_q = MinMaxWeight(4, cout)
    b_q = QuantizerBias(32, cout) if bias else None
    if H.symbolic:
        def contract(d, lo, hi, xx):
            r = H.fresh_int('bs_result')
            H.assume(_bs_post(H, d, lo, hi, xx, r))
            return r
        H.patch('plinio.methods.mps.quant.backends.match.nn.conv2d' if which == 'conv2d' else 'plinio.methods.mps.quant.backends.match.nn.linear',
                'binary_search', contract)
    cls = MATCHConv2d if which == 'conv2d' else MATCHLinear
    layer = cls(lin, in_q, out_q, w_q, b_q, scale_bit=4, shift_pos=2)
    for e in H.elements(layer.weight):
        H.ensure('match-ctor:stored-weights-are-integers-in-the-signed-range', H.and_(H.is_integer(e), H.ge(e, -8), H.le(e, 7)))
    H.ensure('match-ctor:shift-within-declared-range', H.and_(H.ge(H.scalar(layer.shift[0]), 0), H.lt(H.scalar(layer.shift[0]), 2)))
    x = H.itensor('x', (1, 1, 1, 1) if which == 'conv2d' else (1, 1)).float()
    y = layer(x)
    for e in H.elements(y):
        H.ensure('match-ctor:forward-defined-and-in-range', H.and_(H.is_integer(e), H.ge(e, 0), H.le(e, 255)))


def h_maupiti_shared_quantizer(H, wa, wb):
    """BOUNDED (concrete values): two MAUPITI layers built one after the other with the SAME stateful weight quantizer (what the conversion does
    for a convolution followed by a depthwise convolution): the second layer must use the scale of ITS OWN weights; stored integers in range"""
    ca, cb = nn.Conv2d(1, 1, 1), nn.Conv2d(1, 1, 1)
    H.set_(ca.weight, H.const_tensor([[[[wa]]]]))
    H.set_(cb.weight, H.const_tensor([[[[wb]]]]))
    H.set_(ca.bias, H.const_tensor([0.25]))
    H.set_(cb.bias, H.const_tensor([0.25]))
    w_q = MinMaxWeight(4, 1)
    MAUPITIConv2d(ca, PACTAct(8), PACTAct(8), w_q, QuantizerBias(32, 1))
    lb = MAUPITIConv2d(cb, PACTAct(8), PACTAct(8), w_q, QuantizerBias(32, 1))
    ref = MinMaxWeight(4, 1)
    ref(cb.weight)
    H.observe('s_w', lb.s_w)
    H.ensure('maupiti-ctor:weight-scale-is-the-scale-of-this-layers-own-weights', H.eq(lb.s_w, ref.scale))
    H.ensure('maupiti-ctor:stored-weight-is-an-integer-in-the-signed-range',
             H.and_(*[H.and_(H.is_integer(e), H.ge(e, -8), H.le(e, 7)) for e in H.elements(lb.weight)]))
    H.ensure('maupiti-ctor:scale-below-2^15-and-shift-in-range',
             H.and_(H.lt(H.scalar(lb.scale.flatten()[0]), 2 ** 15), H.ge(H.scalar(lb.shift), 0), H.lt(H.scalar(lb.shift), 32)))


_WT = {  # concrete weight tables (cout x cin), chosen with different per-channel maxima so that a channel mix-up of the per-channel scale shows
    'a': [[0.5, -0.25], [-1.5, 0.75]],
    'b': [[0.125, 0.0625], [2.0, -0.5]],
    'c': [[-0.3, 0.9], [0.05, 0.02]],
}
_BT = {'a': [0.25, -0.5], 'b': [-0.125, 1.0], 'c': [0.0, 0.3]}


def _tol(H, b):
    """the concrete parts of a harness (weight tables, scales) are computed in float64 by both the interpreter and CPython: two algebraically equal
    expressions differ by rounding noise, so equalities between differently associated expressions are stated up to 1e-6 (1 + |b|)"""
    return H.mul(1e-6, H.add(1, H.abs(b)))


def _int_layer_cls(kind, backend):
    if backend == 'match':
        return MATCHConv2d if kind == 'conv2d' else MATCHLinear
    return MAUPITIConv2d if kind == 'conv2d' else MAUPITILinear


def h_layer_reproduces(H, kind, backend, wt, p_in, p_out, p_w, clip_in, clip_out, last, pad, bias=True, dil=None):
    """the statement itself, per layer: the integer layer built by the REAL constructor from a fake-quantized layer, fed the integer image of
    an input, returns the integer image of the fake-quantized output to within one level + |accumulator| x |s_w s_x / s_y - scale / 2^shift|;
    last layer: output x (s_x s_w) == logits (MATCH), output == logits up to the scale / shift approximation (MAUPITI).
    Weights / clipping values are concrete tables (bounded in those), the INPUT is symbolic: every integer image in [0, 2^p_in - 1]."""
    cin, cout = 2, 2
    if kind == 'conv2d' and dil is not None:
        # a 2-tap kernel dilated by 2 along spatial axis `dil` (MATCH folds the dilation into a zero-padded kernel)
        ks, dl = ((2, 1), (2, 1)) if dil == 0 else ((1, 2), (1, 2))
        lin = nn.Conv2d(cin, cout, ks, dilation=dl, bias=bias)
        wv = [[[[_WT[wt][o][i] * (1 if t == 0 else -0.5) for b in range(ks[1]) for t in ([a] if dil == 0 else [b])] for a in range(ks[0])] for i in range(cin)] for o in range(cout)]
    elif kind == 'conv2d' and pad == 'h':
        # non-square padding: a 3x1 kernel padded along the first spatial axis only
        lin = nn.Conv2d(cin, cout, (3, 1), padding=(1, 0), bias=bias)
        wv = [[[[_WT[wt][o][i] * (1, 0.5, -0.25)[a]] for a in range(3)] for i in range(cin)] for o in range(cout)]
    elif kind == 'conv2d':
        lin = nn.Conv2d(cin, cout, 3 if pad else 1, padding=1 if pad else 0, bias=bias)
        wv = [[[[_WT[wt][o][i] * (1 if (a, b) == (1, 1) else 0.5 if (a + b) % 2 else -0.25) for b in range(3)] for a in range(3)] for i in range(cin)] for o in range(cout)] \
            if pad else [[[[_WT[wt][o][i]]] for i in range(cin)] for o in range(cout)]
    else:
        lin = nn.Linear(cin, cout, bias=bias)
        wv = _WT[wt]
    H.set_(lin.weight, H.const_tensor(wv))
    if bias:
        H.set_(lin.bias, H.const_tensor(_BT[wt]))
    in_q = PACTAct(p_in, init_clip_val=clip_in)
    out_q = DummyQuantizer(p_out) if last else PACTAct(p_out, init_clip_val=clip_out)
    w_q = MinMaxWeight(p_w, cout)
    b_q = QuantizerBias(32, cout) if bias else None
    fq_layer = (QuantConv2d if kind == 'conv2d' else QuantLinear)(lin, in_q, out_q, w_q, b_q)
    fq_layer.eval()
    shape = ((1, cin, 2, 2) if pad else (1, cin, 1, 1)) if kind == 'conv2d' else (1, cin)
    if dil is not None:
        shape = (1, cin, 3, 1) if dil == 0 else (1, cin, 1, 3)
    x_int = H.itensor('x', shape)
    top_in = 2 ** p_in - 1
    for e in H.elements(x_int):
        H.assume(H.and_(e >= 0, e <= top_in))
    x_int = x_int * 1.0                                 # default floating dtype of the run (float64 natively unless replayed in float32)
    s_x = in_q.scale
    y_fq = fq_layer(x_int * s_x)                        # the fake-quantized counterpart on the input whose integer image is x_int
    layer = _int_layer_cls(kind, backend)(lin, in_q, out_q, w_q, b_q)
    off_in = 2 ** (p_in - 1) if backend == 'maupiti' else 0
    off_out = 2 ** (p_out - 1) if backend == 'maupiti' else 0
    y_int = layer(x_int - off_in)
    H.observe('y_int', y_int)
    H.observe('y_fq', y_fq)
    H.observe('scale', layer.scale)
    H.observe('shift', layer.shift)
    vshape = (1, cout, 1, 1) if kind == 'conv2d' else (1, cout)
    # stored integers within the declared ranges
    lo_w, hi_w = -(2 ** (p_w - 1)), 2 ** (p_w - 1) - 1
    H.ensure('int-layer:stored-weights-are-integers-in-the-signed-range',
             H.and_(*[H.and_(H.is_integer(e), H.ge(e, lo_w), H.le(e, hi_w)) for e in H.elements(layer.weight)]))
    if kind == 'conv2d':
        H.ensure('int-layer:kernel-size-attribute-is-the-shape-of-the-stored-kernel', tuple(H.shape(layer.weight)[2:]) == tuple(layer.kernel_size))
    sbits = 16 if backend == 'maupiti' else 24
    H.ensure('int-layer:scale-is-a-positive-integer-below-2^(scale_bits-1)',
             H.and_(*[H.and_(H.is_integer(e), H.ge(e, 1), H.le(e, 2 ** (sbits - 1))) for e in H.elements(layer.scale)]))
    sh = H.scalar(layer.shift.flatten()[0])
    H.ensure('int-layer:shift-within-range', H.and_(H.is_integer(sh), H.ge(sh, 0), H.lt(sh, 32 if backend == 'maupiti' else 24)))
    # accumulator of the integer layer: integer convolution of the integer image + integer bias
    sc = layer.scale.view(vshape)
    # where each class keeps the integer bias (read off the constructors): MATCHConv2d / MAUPITIConv2d as last layer in .bias; MATCHLinear as last layer in
    # .add_bias unscaled; everywhere else .add_bias holds bias x scale
    if last and kind == 'conv2d' and not bias:
        int_bias, stored_bias = 0.0, H.const_tensor([0.0])
    elif last and kind == 'conv2d':
        int_bias, stored_bias = layer.bias.view(vshape), layer.bias
    elif last and backend == 'match':
        int_bias, stored_bias = layer.add_bias.view(vshape), layer.add_bias
    else:
        int_bias, stored_bias = layer.add_bias.view(vshape) / sc, layer.add_bias
    H.ensure('int-layer:stored-bias-is-an-integer-within-32-bits',
             H.and_(*[H.and_(H.is_integer(e), H.ge(e, -(2 ** 31)), H.le(e, 2 ** 31 - 1)) for e in H.elements(stored_bias)]))
    if kind == 'conv2d':
        acc = torch.nn.functional.conv2d(x_int, layer.weight, None, 1, (1, 0) if pad == 'h' else (1 if pad else 0), layer.dilation) + int_bias
    else:
        acc = torch.nn.functional.linear(x_int, layer.weight, None) + int_bias
    s_w = layer.s_w.view(vshape)
    if last:
        err = torch.abs(acc) * torch.abs(s_w * s_x - sc / 2 ** layer.shift.flatten()[0])
        if backend == 'match':
            H.ensure('last-layer:output-times-input-scale-times-weight-scale-is-the-logits',
                     H.and_(*[H.le(H.abs(H.sub(a, b)), _tol(H, b)) for a, b in zip(H.elements(y_int * s_x * s_w), H.elements(y_fq))]))
        else:
            d = torch.abs(y_int - y_fq)
            H.ensure('last-layer:output-is-the-logits-up-to-the-scale-shift-approximation',
                     H.and_(*[H.le(a, H.add(b, _tol(H, c))) for a, b, c in zip(H.elements(d), H.elements(err), H.elements(y_fq))]))
        return
    s_y = out_q.scale
    img = y_fq / s_y
    for e in H.elements(y_int):
        H.ensure('int-layer:output-is-an-integer-in-the-declared-activation-range',
                 H.and_(H.is_integer(e), H.ge(e, -off_out), H.le(e, 2 ** p_out - 1 - off_out)))
    err = torch.abs(acc) * torch.abs(s_w * s_x / s_y - sc / 2 ** layer.shift.flatten()[0])
    d = torch.abs(y_int + off_out - img)
    H.ensure('int-layer:integer-image-of-the-fake-quantized-output-within-one-level-plus-approximation-bound',
             H.and_(*[H.le(a, H.add(1 + 1e-6, b)) for a, b in zip(H.elements(d), H.elements(err))]))


class _IntChain(nn.Module):
    """conv -> relu -> conv -> relu -> flatten -> linear (the shape of the networks the back-end tests integerize)"""
    def __init__(self):
        super().__init__()
        self.c0 = nn.Conv2d(1, 2, 1)
        self.act0 = nn.ReLU()
        self.c1 = nn.Conv2d(2, 2, 1)
        self.act1 = nn.ReLU()
        self.fc = nn.Linear(2, 2)

    def forward(self, x):
        y = self.act0(self.c0(x))
        y = self.act1(self.c1(y))
        return self.fc(y.flatten(1))


class _IntDw(nn.Module):
    """conv -> relu -> depthwise conv -> relu -> flatten -> linear (MPS shares the weight quantizer of a depthwise layer with its producer's)"""
    def __init__(self):
        super().__init__()
        self.c0 = nn.Conv2d(1, 2, 1)
        self.act0 = nn.ReLU()
        self.c1 = nn.Conv2d(2, 2, 1, groups=2)
        self.act1 = nn.ReLU()
        self.fc = nn.Linear(2, 2)

    def forward(self, x):
        y = self.act0(self.c0(x))
        y = self.act1(self.c1(y))
        return self.fc(y.flatten(1))


def h_integerize_whole(H, backend, p_a, p_w, net='chain'):
    """integerize_arch on a whole exported MPS model (real MPS(), export(), integerize_arch() - tracing / GraphModule are library contracts):
    the rewritten graph holds one back-end layer per fake-quantized layer, built from THAT layer's quantizers; the input quantizer is forced
    to integer output (MATCH) or removed together with the ReLUs (MAUPITI); and each integer layer, fed the integer image of what its
    fake-quantized counterpart receives inside the network, reproduces the image of the counterpart's output (the statement of C14).
    Weights concrete, network input symbolic (every integer image)."""
    user = _IntChain() if net == 'chain' else _IntDw()
    k = 1
    for n, p in user.named_parameters():
        vals = []
        for i in range(p.numel()):
            vals.append(((k * 37) % 17 - 8) / 8.0)
            k += 1
        H.set_(p, H.const_tensor(vals).reshape(H.shape(p)))
    mps = MPS(user, input_example=torch.zeros(1, 1, 1, 1), qinfo=get_default_qinfo((p_w,), (p_a,)))
    mps.eval()
    q = mps.export()
    q.eval()
    x_int = H.int('x')
    top = 2 ** p_a - 1
    H.assume(H.and_(x_int >= 0, x_int <= top))
    inq = q.get_submodule('x_input_quantizer').out_quantizer if hasattr(q.get_submodule('x_input_quantizer'), 'out_quantizer') else q.get_submodule('x_input_quantizer')
    s_in = inq.scale
    x = (H.scalar_tensor(x_int).reshape(1, 1, 1, 1) + 0.5) * s_in          # the real input whose integer image is x_int (mid-cell: robust to rounding noise)
    # the fake-quantized network, layer by layer (what each layer receives and returns)
    names = ['c0', 'c1', 'fc']
    fq_in, fq_out = {}, {}
    t = q.get_submodule('x_input_quantizer')(x)
    for nme in names:
        if nme == 'fc':
            t = t.flatten(1)
        fq_in[nme] = t
        t = q.get_submodule(nme)(t)
        fq_out[nme] = t
        if nme != 'fc':
            t = torch.relu(t)
    y_q = q(x)
    H.ensure('fake-quantized-network:layer-by-layer-evaluation-is-the-network', H.eq(y_q, fq_out['fc']))
    scales = {nme: (q.get_submodule(nme).in_quantizer.scale, None if nme == 'fc' else q.get_submodule(nme).out_quantizer.scale) for nme in names}
    quantizers = {nme: (q.get_submodule(nme).in_quantizer, q.get_submodule(nme).out_quantizer, q.get_submodule(nme).w_quantizer) for nme in names}
    integer = integerize_arch(q, Backend.MATCH if backend == 'match' else Backend.MAUPITI)
    H.observe('nodes', [(n.op, str(n.target) if n.op != 'call_function' else n.name, n.name) for n in integer.graph.nodes])
    mods = dict(integer.named_modules())
    want = {'c0': _int_layer_cls('conv2d', backend), 'c1': _int_layer_cls('conv2d', backend), 'fc': _int_layer_cls('linear', backend)}
    H.ensure('integerize:every-fake-quantized-layer-is-replaced-by-the-back-end-layer', all(type(mods[nme]) is want[nme] for nme in names))
    H.ensure('integerize:back-end-layer-is-built-from-the-quantizers-of-the-layer-it-replaces',
             all(H.same_object(mods[nme].in_quantizer, quantizers[nme][0]) and H.same_object(mods[nme].out_quantizer, quantizers[nme][1])
                 and H.same_object(mods[nme].w_quantizer, quantizers[nme][2]) for nme in names))
    called = [str(n.target) for n in integer.graph.nodes if n.op == 'call_module']
    relus = [n for n in integer.graph.nodes if (n.op == 'call_module' and isinstance(mods[str(n.target)], nn.ReLU)) or (n.op == 'call_function' and n.target in (torch.relu, torch.nn.functional.relu))]
    if backend == 'match':
        H.ensure('integerize:input-quantizer-kept-and-forced-to-integer-output', any('input_quantizer' in c for c in called) and inq.dequantize is False)
    else:
        H.ensure('integerize:input-quantizer-and-relus-removed', not any('input_quantizer' in c for c in called) and len(relus) == 0)
    off = 2 ** (p_a - 1) if backend == 'maupiti' else 0
    for nme in names:
        s_i, s_o = scales[nme]
        layer = mods[nme]
        img_in = torch.round(fq_in[nme] / s_i) - off
        y_int = layer(img_in)
        vshape = (1, 2, 1, 1) if nme != 'fc' else (1, 2)
        sc = layer.scale.view(vshape)
        s_w = layer.s_w.view(vshape)
        if nme == 'fc':
            if backend == 'match':
                H.ensure('integerize:last-layer-output-times-scales-is-the-logits',
                         H.and_(*[H.le(H.abs(H.sub(a, b)), _tol(H, b)) for a, b in zip(H.elements(y_int * s_i * s_w), H.elements(fq_out[nme]))]))
            else:
                acc = torch.nn.functional.linear(img_in + off, layer.weight, None) + layer.add_bias.view(vshape) / sc
                err = torch.abs(acc) * torch.abs(s_w * s_i - sc / 2 ** layer.shift.flatten()[0])
                d = torch.abs(y_int - fq_out[nme])
                H.ensure('integerize:last-layer-output-is-the-logits-up-to-the-approximation',
                         H.and_(*[H.le(a, H.add(b, _tol(H, c))) for a, b, c in zip(H.elements(d), H.elements(err), H.elements(fq_out[nme]))]))
            continue
        acc = torch.nn.functional.conv2d(img_in + off, layer.weight, None, 1, 0, 1, layer.groups) + layer.add_bias.view(vshape) / sc
        err = torch.abs(acc) * torch.abs(s_w * s_i / s_o - sc / 2 ** layer.shift.flatten()[0])
        d = torch.abs(y_int + off - torch.round(fq_out[nme] / s_o))
        H.ensure('integerize:each-layer-reproduces-the-integer-image-of-its-counterpart-within-one-level-plus-bound',
                 H.and_(*[H.le(a, H.add(1 + 1e-6, b)) for a, b in zip(H.elements(d), H.elements(err))]))
    # the integer network as a whole runs on the integer image of the input and returns the logits' image
    y_i = integer(H.scalar_tensor(x_int).reshape(1, 1, 1, 1) * 1.0 - off if backend == 'maupiti' else x)
    H.observe('y_int_net', y_i)
    H.observe('y_q', y_q)


PROPERTY = {
    'C14': dict(
        level='other',
        explanation='the integer back ends under contract: binary_search (unbounded, recursive contract), range clauses of _integer_approximation (binary_search '
                    'used through its contract, symbolic scales / biases), dilation padding of weights, floor-based requantisation range of the MATCH forward, '
                    'definedness of the MATCH constructors with and without bias (symbolic weights); the STATEMENT per layer (layer-reproduces): MATCH / MAUPITI '
                    'conv2d / linear built by the real constructors from a fake-quantized layer return, for EVERY integer input image, the integer image of the '
                    'fake-quantized output within one level + |accumulator| x |s_w s_x / s_y - scale / 2^shift|, stored weights / bias / scale / shift in the declared '
                    'ranges, last-layer logits clauses (weights and clipping values from concrete tables); integerize_arch on a whole exported MPS model '
                    '(integerize-whole: real MPS(), export(), integerize_arch(), remove_relu, remove_inp_quantizer; graph rewrite, quantizer identity per layer, '
                    'per-layer reproduction inside the network for every input image)',
        not_decided=['the per-layer statement for ALL weight values with the DEFAULT selection loop (24 / 32 candidate shifts x channels fork on symbolic scales): layer-reproduces / '
                     'integerize-whole take weights and clipping values from concrete tables with the input symbolic; contracts/c14_sym.py (layer-reproduces-symbolic) discharges the MATCH statement for ALL real '
                     'weights, biases and integer inputs with one channel and a short selection loop (scale_bit <= 8, shift_pos <= 4 handed to the real constructor); MAUPITI hard-codes 16 x 32',
                     'architectures other than conv-relu-conv-relu-flatten-linear for integerize_arch (sums, pooling, shared quantizers across branches)',
                     'dilated MATCH convolutions inside layer-reproduces (the axis-1 defect is a known finding of pad-dilation)',
                     'float32 rounding of the integer arithmetic carried in float tensors (A-real)'],
        assumptions=['scale_bit / shift_pos enumerated small for the SYMBOLIC selection loop of _integer_approximation (each candidate shift forks the path); the '
                     'concrete-weight harnesses run the real defaults (24 x 24, MAUPITI 16 x 32)',
                     'integer bias magnitude below 2^(32 - scale_bit): otherwise every candidate shift overflows and the selection returns None (torch.tensor(None) raises) - the regime where no valid answer exists is outside the clause',
                     'concrete sub-computations (weight tables, scales) are evaluated in float64 by the interpreter and by CPython alike: equalities between differently '
                     'associated expressions are stated up to 1e-6 (1 + |value|)',
                     'MAUPITI offset-signed image of an activation with p bits: level - 2^(p-1)'],
    ),
}

_B = (True, False)
_BK = 'plinio/methods/mps/quant/backends/'
HARNESSES = [
    dict(name='integerize-whole', bounded='two enumerated architectures (conv-relu-conv-relu-flatten-linear; the same with a depthwise second convolution), concrete weights; the network input is symbolic (every integer image)',
         fn='h_integerize_whole', property=['C14'],
         functions=[_BK + 'base.py::integerize_arch', _BK + 'base.py::remove_relu', _BK + 'base.py::remove_inp_quantizer', _BK + 'base.py::backend_factory',
                    _BK + 'base.py::IntegerizationTracer.is_leaf_module', 'plinio/methods/mps/quant/nn/conv2d.py::QuantConv2d.export', 'plinio/methods/mps/quant/nn/linear.py::QuantLinear.export'],
         quick=[dict(backend=b, p_a=8, p_w=8) for b in ('match', 'maupiti')] + [dict(backend=b, p_a=8, p_w=8, net='dw') for b in ('match', 'maupiti')],
         thorough=[dict(backend=b, p_a=pa, p_w=pw, net=n) for b in ('match', 'maupiti') for pa in (8, 4) for pw in (8, 4) for n in ('chain', 'dw')],
         timeout=240, crosscheck=2),
    dict(name='layer-reproduces', bounded='weights / clipping values from concrete tables; the input integer image is symbolic (all of [0, 2^p - 1])', fn='h_layer_reproduces', property=['C14'],
         functions=[_BK + 'match/nn/conv2d.py::MATCHConv2d.__init__', _BK + 'match/nn/conv2d.py::MATCHConv2d.forward', _BK + 'match/nn/linear.py::MATCHLinear.__init__',
                    _BK + 'match/nn/linear.py::MATCHLinear.forward', _BK + 'maupiti/nn/conv2d.py::MAUPITIConv2d.__init__', _BK + 'maupiti/nn/conv2d.py::MAUPITIConv2d.forward',
                    _BK + 'maupiti/nn/linear.py::MAUPITILinear.__init__', _BK + 'maupiti/nn/linear.py::MAUPITILinear.forward',
                    'plinio/methods/mps/quant/nn/conv2d.py::QuantConv2d.forward', 'plinio/methods/mps/quant/nn/linear.py::QuantLinear.forward'],
         quick=[dict(kind=k, backend=b, wt='a', p_in=8, p_out=8, p_w=8, clip_in=1.0, clip_out=2.0, last=l, pad=False)
                for k in ('conv2d', 'linear') for b in ('match', 'maupiti') for l in (False, True)]
         + [dict(kind='conv2d', backend=b, wt='b', p_in=4, p_out=4, p_w=4, clip_in=1.0, clip_out=6.0, last=False, pad=True) for b in ('match', 'maupiti')]
         + [dict(kind=k, backend='match', wt='c', p_in=4, p_out=8, p_w=8, clip_in=1.0, clip_out=2.0, last=False, pad=False) for k in ('conv2d', 'linear')]
         + [dict(kind=k, backend=b, wt='b', p_in=8, p_out=8, p_w=8, clip_in=1.0, clip_out=2.0, last=l, pad=False, bias=False)
            for k in ('conv2d', 'linear') for b in ('match', 'maupiti') for l in (False, True)]
         + [dict(kind='conv2d', backend=b, wt='a', p_in=8, p_out=8, p_w=8, clip_in=1.0, clip_out=2.0, last=False, pad=False, dil=d) for b in ('match', 'maupiti') for d in (0, 1)]
         + [dict(kind='conv2d', backend=b, wt='c', p_in=8, p_out=8, p_w=8, clip_in=1.0, clip_out=2.0, last=False, pad='h') for b in ('match', 'maupiti')],
         thorough=[dict(kind=k, backend=b, wt=w, p_in=pi, p_out=po, p_w=pw, clip_in=1.0, clip_out=co, last=l, pad=pd)
                   for k in ('conv2d', 'linear') for b in ('match', 'maupiti') for l in (False, True)
                   for (w, pi, po, pw, co, pd) in (('a', 8, 8, 8, 2.0, False), ('a', 8, 8, 8, 2.0, True), ('b', 8, 8, 4, 6.0, False), ('c', 4, 8, 8, 2.0, False),
                                                   ('c', 8, 4, 4, 2.0, False), ('b', 4, 4, 4, 6.0, True), ('c', 2, 2, 2, 2.0, False))
                   if k == 'conv2d' or not pd]
         + [dict(kind=k, backend=b, wt=w, p_in=8, p_out=8, p_w=8, clip_in=1.0, clip_out=2.0, last=l, pad=pd, bias=False)
            for k in ('conv2d', 'linear') for b in ('match', 'maupiti') for l in (False, True) for w in ('a', 'b') for pd in (False, True) if (k == 'conv2d' and (w == 'a' or not pd)) or not pd]
         + [dict(kind='conv2d', backend=b, wt=w, p_in=8, p_out=pq, p_w=pq, clip_in=1.0, clip_out=2.0, last=l, pad=False, bias=bs, dil=d)
            for b in ('match', 'maupiti') for d in (0, 1) for w in ('a', 'c') for pq in (8, 4) for l in (False, True) for bs in (True, False)]
         + [dict(kind='conv2d', backend=b, wt=w, p_in=8, p_out=8, p_w=8, clip_in=1.0, clip_out=2.0, last=False, pad='h', bias=bs) for b in ('match', 'maupiti') for w in ('a', 'c') for bs in (True, False)],
         timeout=120, crosscheck=2),
    dict(name='maupiti-shared-quantizer', bounded='concrete values (two weight magnitudes per configuration), not symbolic', fn='h_maupiti_shared_quantizer', property=['C14'], functions=[_BK + 'maupiti/nn/conv2d.py::MAUPITIConv2d.__init__', _BK + 'maupiti/nn/conv2d.py::MAUPITIConv2d._integer_approximation'],
         quick=[dict(wa=4.0, wb=0.5), dict(wa=0.25, wb=2.0)], thorough=[dict(wa=a, wb=b) for a in (4.0, 0.25, 1.0) for b in (0.5, 2.0, 1.0)], timeout=60, crosscheck=1),
    dict(name='binary-search', fn='h_binary_search', property=['C14'], functions=[_BK + 'utils.py::binary_search'],
         quick=[dict(div=d) for d in (1, 0.5, 0.25, 2 ** -10, 2 ** -23)], thorough=[dict(div=2 ** -s) for s in range(0, 32)], crosscheck=0),
    dict(name='integer-approximation', fn='h_integer_approximation', property=['C14'],
         functions=[_BK + 'match/nn/conv2d.py::MATCHConv2d._integer_approximation', _BK + 'match/nn/linear.py::MATCHLinear._integer_approximation'],
         quick=[dict(which=w, scale_bit=4, shift_pos=2, C=1) for w in ('conv2d', 'linear')] + [dict(which='conv2d', scale_bit=8, shift_pos=3, C=2)]
         + [dict(which=w, scale_bit=4, shift_pos=2, C=1, small_bias=False) for w in ('conv2d', 'linear')],
         thorough=[dict(which=w, scale_bit=sb, shift_pos=sp, C=c) for w in ('conv2d', 'linear') for sb in (4, 8, 24) for sp in (1, 2, 3, 4) for c in (1, 2)]
         + [dict(which=w, scale_bit=sb, shift_pos=sp, C=c, small_bias=False) for w in ('conv2d', 'linear') for sb in (4, 8) for sp in (2, 3) for c in (1, 2)],
         timeout=60, crosscheck=0),
    dict(name='pad-dilation', fn='h_pad_dilation', property=['C14'], functions=[_BK + 'match/nn/conv2d.py::MATCHConv2d._pad_dilation_in_weight'],
         quick=[dict(k=k, d=d, axis=a) for k, d in ((2, 2), (3, 2), (2, 3)) for a in (0, 1)],
         thorough=[dict(k=k, d=d, axis=a) for k in (1, 2, 3, 4) for d in (1, 2, 3, 4) for a in (0, 1)]),
    dict(name='match-forward-range', fn='h_match_forward_range', property=['C14'],
         functions=[_BK + 'match/nn/conv2d.py::MATCHConv2d.forward', _BK + 'match/nn/conv2d.py::MATCHConv2d.clip_inf', _BK + 'match/nn/conv2d.py::MATCHConv2d.clip_sup',
                    _BK + 'match/nn/linear.py::MATCHLinear.forward'],
         quick=[dict(which=w, p_out=p) for w in ('conv2d', 'linear') for p in (2, 8)], thorough=[dict(which=w, p_out=p) for w in ('conv2d', 'linear') for p in (2, 4, 8)]),
    dict(name='match-ctor', fn='h_match_ctor', property=['C14'],
         functions=[_BK + 'match/nn/conv2d.py::MATCHConv2d.__init__', _BK + 'match/nn/linear.py::MATCHLinear.__init__'],
         quick=[dict(which=w, bias=b) for w in ('conv2d', 'linear') for b in _B], thorough=[dict(which=w, bias=b) for w in ('conv2d', 'linear') for b in _B],
         timeout=60, crosscheck=0),
]
