"""C12, ODiMO clause: "the cost of a PLiNIO model (... ODiMO with its default DIANA latency and parallel-accelerator reduction) can be evaluated and
is finite and non-negative".  The real ODiMO_MPS constructor (MPS conversion pipeline from source) on one small model with its DEFAULT cost
specification (diana_latency) and DEFAULT reduction (odimo_mps_latency_reduction); selection coefficients at their initial values, weights concrete.
Bounded: one architecture."""
import torch
import torch.nn as nn
from plinio.methods.odimo_mps.odimo_mps import ODiMO_MPS, get_default_qinfo, odimo_mps_latency_reduction


class Net(nn.Module):
    def __init__(self):
        super().__init__()
        self.c0 = nn.Conv2d(1, 2, 1)
        self.act = nn.ReLU()
        self.fc = nn.Linear(2, 2)

    def forward(self, x):
        return self.fc(self.act(self.c0(x)).flatten(1))


def h_odimo_default_cost(H):
    net = Net()
    k = 1
    for n, p in net.named_parameters():
        vals = []
        for i in range(p.numel()):
            vals.append(((k * 37) % 17 - 8) / 8.0)
            k += 1
        H.set_(p, H.const_tensor(vals).reshape(H.shape(p)))
    model = ODiMO_MPS(net, input_example=torch.zeros(1, 1, 1, 1), qinfo=get_default_qinfo(w_precision=(2, 8), a_precision=(8,)))
    model(H.const_tensor([[[[0.75]]]]))
    c = H.scalar(model.cost)
    H.observe('cost', c)
    H.ensure('odimo:default-cost-can-be-evaluated-and-is-finite-and-non-negative', H.ge(c, 0))


def h_reduction(H, n):
    """the parallel-accelerator reduction on a vector of per-precision latencies: a softmax-weighted mean - between the smallest and the largest entry,
    hence finite and non-negative for non-negative latencies"""
    costs = H.tensor('latency', (n,))
    for e in H.elements(costs):
        H.assume(H.and_(H.ge(e, 0), H.le(e, 50)))
    r = H.scalar(odimo_mps_latency_reduction(costs))
    els = H.elements(costs)
    lo, hi = els[0], els[0]
    for e in els[1:]:
        lo, hi = H.min(lo, e), H.max(hi, e)
    H.ensure('odimo-reduction:between-the-smallest-and-the-largest-latency', H.and_(H.ge(r, lo), H.le(r, hi)))


PROPERTY = {}
HARNESSES = [
    dict(name='odimo-reduction', fn='h_reduction', property=['C12'], functions=['plinio/methods/odimo_mps/odimo_mps.py::odimo_mps_latency_reduction'],
         quick=[dict(n=n) for n in (1, 2, 3)], thorough=[dict(n=n) for n in (1, 2, 3, 4)], timeout=60),
    dict(name='odimo-default-cost', bounded='one enumerated architecture, concrete weights', fn='h_odimo_default_cost', property=['C12'],
         functions=['plinio/methods/odimo_mps/odimo_mps.py::ODiMO_MPS.__init__', 'plinio/methods/odimo_mps/odimo_mps.py::odimo_mps_latency_reduction',
                    'plinio/cost/diana_latency.py::*'],
         quick=[{}], thorough=[{}], timeout=120, crosscheck=1),
]
