"""MPS searchable layers: contracts of the cost hand-over (C05) and of export vs eval-mode forward (C02), per layer.

Functions under contract (plinio/methods/mps/nn/): conv2d.py / conv1d.py / linear.py / identity.py: __init__, forward, export, get_cost,
get_modified_vars, out_features_eff, summary, selected_*; qtz.py MPSPerLayerQtz.forward, MPSPerChannelQtz.forward/out_features_eff,
MPSBaseQtz.effective_scale, MPSBiasQtz.forward; plinio/methods/mps/quant/nn/: conv2d.py QuantConv2d.__init__/forward, linear.py
QuantLinear.__init__/forward, identity.py QuantIdentity.__init__/forward; the quantizer kernels of C13 are executed, not summarised.

Tensors are small and concrete in shape, every weight / bias / activation / coefficient is an arbitrary real.
"""
import torch
import torch.nn as nn
from plinio.methods.mps.nn.qtz import MPSPerLayerQtz, MPSPerChannelQtz, MPSBiasQtz
from plinio.methods.mps.nn.conv2d import MPSConv2d
from plinio.methods.mps.nn.conv1d import MPSConv1d
from plinio.methods.mps.nn.linear import MPSLinear
from plinio.methods.mps.nn.identity import MPSIdentity
from plinio.methods.mps.quant.quantizers import PACTAct, MinMaxWeight, QuantizerBias
from plinio.graph.features_calculation import ConstFeaturesCalculator, ModAttrFeaturesCalculator
from plinio.cost import params_bit, ops_bit

PRECS = {1: (8,), 2: (2, 8), 3: (8, 2, 4)}
PRECS0 = {2: (0, 8), 3: (0, 4, 8)}


def _no_ties(H, vals):
    for i in range(len(vals)):
        for j in range(i):
            H.assume(H.ne(vals[i], vals[j]))


def _is_max(H, vals, i):
    """i is the FIRST maximal entry (ties are allowed: torch.argmax, used by summary(), returns the first maximum)"""
    return H.and_(*([H.gt(vals[i], v) for v in vals[:i]] + [H.ge(vals[i], v) for v in vals[i + 1:]]))


def _layer(H, kind, n_in, n_w, per_channel, bias, cin, cout, gumbel=False):
    in_q = MPSPerLayerQtz(PRECS[n_in], PACTAct, gumbel_softmax=gumbel)
    out_q = MPSPerLayerQtz(PRECS[2], PACTAct, gumbel_softmax=gumbel)
    w_q = MPSPerChannelQtz(PRECS0[n_w], MinMaxWeight, {'cout': cout}) if per_channel else MPSPerLayerQtz(PRECS[n_w], MinMaxWeight, {'cout': cout}, gumbel_softmax=gumbel)
    b_q = MPSBiasQtz(QuantizerBias, {'precision': 32, 'cout': cout})
    if kind == 'conv2d':
        layer = MPSConv2d(nn.Conv2d(cin, cout, 1, bias=bias), out_q, w_q, b_q)
    elif kind == 'conv1d':
        layer = MPSConv1d(nn.Conv1d(cin, cout, 1, bias=bias), out_q, w_q, b_q)
    else:
        layer = MPSLinear(nn.Linear(cin, cout, bias=bias), out_q, w_q, b_q)
    layer.in_mps_quantizer = in_q
    layer.input_features_calculator = ConstFeaturesCalculator(cin)
    return layer, in_q, out_q, w_q


def _set_alphas(H, q, tag, shape, split=False):
    a = H.tensor(tag, shape)                 # any real coefficients, ties included
    H.set_(q.alpha, a)
    if split and len(shape) == 1:
        # case split on the (first) maximal coefficient: one path per selected alternative, on which the arg-max is concrete
        vals = H.elements(a)
        for i in range(len(vals)):
            if H.branch(_is_max(H, vals, i)):
                break
    return a


# ------------------------------------------------------------------------------------------------- C05
def h_cost_keys(H, kind, per_channel):
    """N1: the description handed to the cost function carries the effective feature counts under the PyTorch names of the layer type"""
    cin, cout = 3, 2
    layer, in_q, out_q, w_q = _layer(H, kind, 2, 2, per_channel, True, cin, cout)
    eff_in = H.tensor('producer_alive_features', ())
    layer.input_features_calculator = ConstFeaturesCalculator(cin)
    # a producer that pruned some channels: the calculator reports fewer features than the static size
    prod = MPSConv2d(nn.Conv2d(1, cin, 1), MPSPerLayerQtz(PRECS[1], PACTAct), MPSPerChannelQtz(PRECS0[2], MinMaxWeight, {'cout': cin}),
                     MPSBiasQtz(QuantizerBias, {'precision': 32, 'cout': cin}))
    _set_alphas(H, prod.w_mps_quantizer, 'prod_alpha', (2, cin))
    prod.eval()
    prod.w_mps_quantizer.sample_alpha()
    layer.input_features_calculator = ModAttrFeaturesCalculator(prod, 'out_features_eff', 'features_mask')
    if per_channel:
        _set_alphas(H, w_q, 'w_alpha', (2, cout))
    layer.eval()
    w_q.sample_alpha()
    in_q.sample_alpha()
    seen = []

    def probe(v):
        seen.append(v)
        return torch.tensor(1.0)
    static = dict(vars(layer))
    layer.get_cost(probe, {'output_shape': (1, cout, 1, 1)})
    kin, kout = ('in_features', 'out_features') if kind == 'linear' else ('in_channels', 'out_channels')
    alive_in = H.scalar(prod.out_features_eff)
    alive_out = H.scalar(layer.out_features_eff)
    H.ensure('cost-keys:cost-function-called-once-per-precision-pair', len(seen) == 2 * 2)
    for v in seen:
        H.ensure('cost-keys:effective-input-features-under-the-layer-types-name', H.eq(H.scalar(v[kin]), alive_in))
        H.ensure('cost-keys:effective-output-features-under-the-layer-types-name', H.eq(H.scalar(v[kout]), alive_out))
    H.ensure('cost-keys:producer-pruning-is-visible', H.eq(alive_in, H.count([_is_max(H, [H.scalar(prod.w_mps_quantizer.alpha[i, c]) for i in range(2)], 1) for c in range(cin)])))
    pairs = [(H.scalar(v['in_precision']), H.scalar(v['w_precision'])) for v in seen]
    H.ensure('cost-keys:every-precision-pair-offered', all(any(H.eq(p[0], a) and H.eq(p[1], b) for p in pairs)
                                                          for a in PRECS[2] for b in (PRECS0[2] if per_channel else PRECS[2])))
    # reading the cost is an observer: the layer's own attributes are the objects they were
    H.ensure('cost-keys:layer-not-modified', sorted(vars(layer).keys()) == sorted(static.keys()) and all(vars(layer)[key] is static[key] for key in static))


def h_cost_exact_per_layer(H, kind, n_in, n_w, training_hard):
    """N2/N3: eval (or hard) mode, per-layer search: the reduced cost is the exact bit-cost of the assignment summary() reports"""
    cin, cout = 3, 2
    layer, in_q, out_q, w_q = _layer(H, kind, n_in, n_w, False, True, cin, cout)
    a_in = _set_alphas(H, in_q, 'in_alpha', (n_in,))
    a_w = _set_alphas(H, w_q, 'w_alpha', (n_w,))
    if training_hard:
        # hard sampling is switched on through the layers, as MPS.update_softmax_options does: the input precision is chosen by the
        # quantizer of the producer (here the network-input MPSIdentity), the weight precision by the layer's own quantizer
        producer = MPSIdentity(in_q)
        layer.train()
        producer.train()
        producer.update_softmax_options(hard=True)
        layer.update_softmax_options(hard=True)
        # annealing the temperature afterwards must not leave hard sampling
        producer.update_softmax_options(temperature=0.5)
        layer.update_softmax_options(temperature=0.5)
    else:
        layer.eval()
    in_q.sample_alpha()
    w_q.sample_alpha()
    shape = {'output_shape': (1, cout, 3, 2) if kind == 'conv2d' else ((1, cout, 3) if kind == 'conv1d' else (1, cout))}
    typ = {'conv2d': nn.Conv2d, 'conv1d': nn.Conv1d, 'linear': nn.Linear}[kind]
    positions = 6 if kind == 'conv2d' else (3 if kind == 'conv1d' else 1)
    summ = layer.summary()
    for spec, label in ((params_bit, 'weight-size'), (ops_bit, 'bit-operations')):
        fn = spec[(typ, vars(layer))]
        c = H.scalar(torch.sum(layer.get_cost(fn, shape)))
        weights = cin * cout
        exact = weights * summ['w_precision'] if label == 'weight-size' else weights * positions * summ['w_precision'] * summ['in_precision']
        H.ensure('cost:%s-is-exact-for-the-reported-assignment' % label, H.eq(c, exact))
    H.ensure('summary:reports-argmax-precisions',
             H.and_(*[H.implies(_is_max(H, H.elements(a_w), i), H.eq(summ['w_precision'], PRECS[n_w][i])) for i in range(n_w)]))


def h_cost_per_channel(H, kind, n_w):
    """N4: per-channel search with the 0-bit option: exact cost = sum over kept precisions of cost(channels selected at that precision)"""
    cin, cout = 2, 3
    layer, in_q, out_q, w_q = _layer(H, kind, 1, n_w, True, True, cin, cout)
    a_w = _set_alphas(H, w_q, 'w_alpha', (n_w, cout))
    layer.eval()
    in_q.sample_alpha()
    w_q.sample_alpha()
    typ = {'conv2d': nn.Conv2d, 'conv1d': nn.Conv1d, 'linear': nn.Linear}[kind]
    shape = {'output_shape': (1, cout, 1, 1) if kind == 'conv2d' else ((1, cout, 1) if kind == 'conv1d' else (1, cout))}
    fn = params_bit[(typ, vars(layer))]
    c = H.scalar(torch.sum(layer.get_cost(fn, shape)))
    precs = PRECS0[n_w]
    n_at = [H.count([_is_max(H, [H.scalar(a_w[i, ch]) for i in range(n_w)], p) for ch in range(cout)]) for p in range(n_w)]
    exact = H.sum([H.mul(H.mul(n_at[p], cin), precs[p]) for p in range(n_w)])
    H.observe('cost', c)
    H.ensure('cost:per-channel-weight-size-is-exact', H.eq(c, exact))
    H.ensure('cost:pruned-channels-are-free-and-lower-out-features', H.eq(H.scalar(layer.out_features_eff), cout - n_at[0]))


# ------------------------------------------------------------------------------------------------- C02
def h_export_equiv(H, kind, n_in, n_w, bias, gumbel=False):
    """eval-mode forward of the MPS layer == forward of the Quant layer export() builds, on every input (per-layer search);
    the exported layer uses the precisions summary() reports and re-uses the trained quantizer objects"""
    cin, cout = (1, 1) if bias else (2, 2)        # the bias path forks on every zero-scale test: keep it to one channel
    if kind == 'identity':
        out_q = MPSPerLayerQtz(PRECS[n_in], PACTAct, gumbel_softmax=gumbel)
        layer = MPSIdentity(out_q)
        in_q = w_q = None
    else:
        layer, in_q, out_q, w_q = _layer(H, kind, n_in, n_w, False, bias, cin, cout, gumbel)
        H.set_(layer.weight, H.tensor('weight', H.shape(layer.weight)))
        if bias:
            H.set_(layer.bias, H.tensor('bias', (cout,)))
        _set_alphas(H, in_q, 'in_alpha', (n_in,), True)
        _set_alphas(H, w_q, 'w_alpha', (n_w,), True)
        for q in in_q.qtz_funcs:
            cv = H.tensor('in_clip_%d' % q.precision, (1,))
            H.assume(H.and_(H.ge(cv, 0.05), H.le(cv, 1000)))
            H.set_(q.clip_val, cv)
    _set_alphas(H, out_q, 'out_alpha', (len(out_q.qtz_funcs),), True)
    for q in out_q.qtz_funcs:
        cv = H.tensor('out_clip_%d' % q.precision, (1,))
        H.assume(H.and_(H.ge(cv, 0.05), H.le(cv, 1000)))
        H.set_(q.clip_val, cv)
    layer.eval()
    x = H.tensor('x', (1, cin, 1, 2) if kind == 'conv2d' else ((1, cin, 2) if kind == 'conv1d' else (1, cin)))
    if in_q is not None:
        in_q.sample_alpha()            # the producer's forward samples the shared input quantizer before this layer runs
    summ = layer.summary()
    gm, nodes = H.fx_chain([('layer', layer)])
    if kind == 'identity':
        MPSIdentity.export(nodes[0], gm)
    elif kind == 'conv2d':
        MPSConv2d.export(nodes[0], gm)
    elif kind == 'conv1d':
        MPSConv1d.export(nodes[0], gm)
    else:
        MPSLinear.export(nodes[0], gm)
    new = dict(H.fx_modules(gm))['layer']
    new.eval()
    y_mps = layer(x)
    y_q = new(x)
    H.observe('y_mps', y_mps)
    H.observe('y_q', y_q)
    H.ensure('export:bit-identical-to-eval-mode-forward', H.eq(y_mps, y_q))
    H.ensure('export:output-precision-is-the-reported-one', new.out_quantizer.precision == summ['out_precision'])
    H.ensure('export:re-uses-the-trained-output-quantizer', any(H.same_object(new.out_quantizer, q) for q in out_q.qtz_funcs))
    if kind != 'identity':
        H.ensure('export:input-and-weight-precisions-are-the-reported-ones',
                 new.in_quantizer.precision == summ['in_precision'] and new.w_quantizer.precision == summ['w_precision'])
        H.ensure('export:re-uses-the-trained-quantizers',
                 any(H.same_object(new.in_quantizer, q) for q in in_q.qtz_funcs) and any(H.same_object(new.w_quantizer, q) for q in w_q.qtz_funcs))
        H.ensure('export:weights-copied', H.eq(new.weight, layer.weight) and (not bias or H.eq(new.bias, layer.bias)))


PROPERTY = {
    'C05': dict(
        level='other',
        explanation='per-layer contracts of the cost hand-over of MPSConv2d/MPSConv1d/MPSLinear: names and values shown to the cost function, '
                    'exact bit-cost under one-hot sampling for per-layer search, per-channel clause recorded as a known finding if refuted; '
                    'the aggregation over layers is in contracts/wrappers.py',
        not_decided=['which quantizer feeds which layer over ALL architectures (register_in_mps_quantizers runs from source only on the enumerated models of contracts/whole_mps.py, with '
                     'concrete weights)', 'MPSAdd value-level clauses',
                     'mpic / ne16 cost specs through the MPS layers (their own clauses are under C16)'],
        assumptions=['layer sizes 2..3 channels, 1x1 kernels (the formulas are products; nothing depends on the size)'],
    ),
    'C02': dict(
        level='other',
        explanation='per layer (as the statement restricts: per-layer search): eval-mode MPSConv2d/MPSConv1d/MPSLinear/MPSIdentity forward == forward '
                    'of the Quant* layer that export() builds, for all real weights, inputs, clip values and coefficients without ties, 1..3 candidate '
                    'precisions; exported precisions == summary()',
        not_decided=['the input-quantizer wiring across layers over ALL architectures: decided for the enumerated models of contracts/whole_mps.py only (real convert(), every combination '
                     'of selected precisions, CONCRETE weights and input - a bounded stand-in in topology and values)',
                     'BatchNorm folding before conversion (its algebra is under C07)', 'MPSAdd', 'float32 rounding (A-real): "bit-identical" is shown as '
                     'equality of the same real-valued terms, which are computed by the same torch kernels in the same order'],
        assumptions=['the producer of the layer input has sampled the shared input quantizer in the same (eval) forward pass'],
    ),
}

_B = (True, False)
_M = 'plinio/methods/mps/'
HARNESSES = [
    dict(name='cost-keys', fn='h_cost_keys', property=['C05', 'C18'],
         functions=[_M + 'nn/%s.py::%s.%s' % (f, c, m) for f, c in (('conv2d', 'MPSConv2d'), ('conv1d', 'MPSConv1d'), ('linear', 'MPSLinear'))
                    for m in ('get_cost', 'get_modified_vars', 'out_features_eff')] + [_M + 'nn/qtz.py::MPSPerChannelQtz.out_features_eff'],
         quick=[dict(kind=k, per_channel=pc) for k in ('conv2d', 'conv1d', 'linear') for pc in _B],
         thorough=[dict(kind=k, per_channel=pc) for k in ('conv2d', 'conv1d', 'linear') for pc in _B]),
    dict(name='cost-exact-per-layer', fn='h_cost_exact_per_layer', property=['C05'],
         functions=[_M + 'nn/conv2d.py::MPSConv2d.get_cost', _M + 'nn/conv1d.py::MPSConv1d.get_cost', _M + 'nn/linear.py::MPSLinear.get_cost',
                    'plinio/cost/params_bit.py::*', 'plinio/cost/ops_bit.py::*'],
         quick=[dict(kind=k, n_in=2, n_w=3, training_hard=th) for k in ('conv2d', 'conv1d', 'linear') for th in _B],
         thorough=[dict(kind=k, n_in=ni, n_w=nw, training_hard=th) for k in ('conv2d', 'conv1d', 'linear') for ni in (1, 2, 3) for nw in (1, 2, 3) for th in _B]),
    dict(name='cost-per-channel', fn='h_cost_per_channel', property=['C05'],
         functions=[_M + 'nn/conv2d.py::MPSConv2d.get_cost', _M + 'nn/linear.py::MPSLinear.get_cost', _M + 'nn/qtz.py::MPSPerChannelQtz.out_features_eff'],
         quick=[dict(kind=k, n_w=nw) for k in ('conv2d', 'linear') for nw in (2, 3)],
         thorough=[dict(kind=k, n_w=nw) for k in ('conv2d', 'conv1d', 'linear') for nw in (2, 3)]),
    dict(name='export-equiv', fn='h_export_equiv', property=['C02'],
         functions=[_M + 'nn/%s.py::%s.%s' % (f, c, m) for f, c in (('conv2d', 'MPSConv2d'), ('conv1d', 'MPSConv1d'), ('linear', 'MPSLinear'), ('identity', 'MPSIdentity'))
                    for m in ('forward', 'export', 'summary')] +
                   [_M + 'quant/nn/conv2d.py::QuantConv2d.forward', _M + 'quant/nn/linear.py::QuantLinear.forward', _M + 'quant/nn/identity.py::QuantIdentity.forward',
                    _M + 'nn/qtz.py::MPSPerLayerQtz.forward', _M + 'nn/qtz.py::MPSBaseQtz.effective_scale', _M + 'nn/qtz.py::MPSBiasQtz.forward'],
         quick=[dict(kind='identity', n_in=3, n_w=1, bias=False), dict(kind='identity', n_in=2, n_w=1, bias=False, gumbel=True)] +
               [dict(kind='conv2d', n_in=2, n_w=2, bias=False), dict(kind='linear', n_in=2, n_w=2, bias=True), dict(kind='conv1d', n_in=1, n_w=2, bias=False),
                dict(kind='linear', n_in=2, n_w=1, bias=False, gumbel=True)],
         thorough=[dict(kind='identity', n_in=n, n_w=1, bias=False, gumbel=g) for n in (1, 2, 3) for g in _B] +
                  [dict(kind=k, n_in=ni, n_w=nw, bias=b, gumbel=False) for k in ('conv2d', 'conv1d', 'linear') for ni, nw in ((1, 1), (2, 2), (3, 2), (2, 3)) for b in _B] +
                  [dict(kind=k, n_in=2, n_w=2, bias=False, gumbel=True) for k in ('conv2d', 'conv1d', 'linear')],
         timeout=180),
]
