"""C15 - cost-function lookup depends on the layer, not on the registration order.

Functions under contract (plinio/cost/cost_spec.py): CostSpec.__init__, CostSpec.__setitem__, CostSpec.__getitem__,
cost_spec_zero_fn, cost_spec_fail_fn; (plinio/cost/pattern.py): conv_dw_constraint, conv_3_constraint.

Top-level clauses are transcribed from the property statement.  With CM = matching constrained registrations and
UM = unconstrained registrations of the layer type:
  (1) an exception escapes the lookup only if two *different* constrained patterns both match (and it is a KeyError),
      or the specification's default is 'fail' and nothing applies;
  (2) else, if CM is not empty the result is the function registered for it;
  (3) else, if UM is not empty, the function registered for the unconstrained pattern;
  (4) else the default (zero function / failing function).
Order independence follows because (1)-(4) mention only the *set* of registrations; it is additionally stated as a
relational clause over two registration orders.
"""
import torch.nn as nn
from plinio.cost.cost_spec import CostSpec, cost_spec_zero_fn, cost_spec_fail_fn
from plinio.cost.pattern import conv_dw_constraint, conv_3_constraint


# ----------------------------------------------------------------------------------------------------------------------
# mode A: n registrations, every registration symbolic: constraint id in {0=None, 1, 2, 3}; matches(c) symbolic
# ----------------------------------------------------------------------------------------------------------------------
def _mk_constraint(H, cid, m):
    """constraint number cid (1..3) as a python callable whose verdict on the layer is the symbolic bool m"""
    def constr(spec):
        return m
    return constr


def _mk_fn(H, fid):
    def cost_fn(spec):
        return fid
    return cost_fn


def h_lookup_small(H, n, default):
    """all registration sequences of length n over {unconstrained, c1, c2, c3} for one layer type (patterns pairwise
    distinct, as the statement's 'patterns' are), all verdicts of the constraints on the layer"""
    m = [None, H.bool('m1'), H.bool('m2'), H.bool('m3')]
    constrs = [None] + [_mk_constraint(H, c, m[c]) for c in (1, 2, 3)]
    kinds = [H.int('kind[%d]' % i) for i in range(n)]
    for i in range(n):
        H.assume(H.and_(kinds[i] >= 0, kinds[i] <= 3))
        for j in range(i):
            H.assume(kinds[i] != kinds[j])
    spec = CostSpec(shared=True, default_behavior=default)
    fns = []
    conc = []
    for i in range(n):
        k = H.concretize(kinds[i])
        conc.append(k)
        f = _mk_fn(H, i + 1)
        fns.append(f)
        spec[(nn.Conv2d, constrs[k])] = f
    layer_spec = {'in_channels': 4, 'out_channels': 4, 'groups': 4, 'kernel_size': (3, 3)}
    cm = [i for i in range(n) if conc[i] != 0]
    um = [i for i in range(n) if conc[i] == 0]
    n_match = H.count([m[conc[i]] for i in cm])
    raised = None
    res = None
    try:
        res = spec[(nn.Conv2d, layer_spec)]
    except KeyError:
        raised = 'KeyError'
    if raised is not None:
        H.ensure('lookup:raises-only-on-two-constrained-matches', n_match >= 2, 'raises')
    else:
        H.ensure('lookup:no-silent-pick-among-conflicting-matches', n_match <= 1)
        for i in cm:
            H.ensure('lookup:constrained-match-wins', H.implies(m[conc[i]], H.same_object(res, fns[i])))
        if len(um) > 0:
            H.ensure('lookup:else-unconstrained', H.implies(n_match == 0, H.same_object(res, fns[um[0]])))
        else:
            dflt = cost_spec_zero_fn if default == 'zero' else cost_spec_fail_fn
            H.ensure('lookup:else-default', H.implies(n_match == 0, H.same_object(res, dflt)))
    # other layer types are unaffected (frame of __setitem__)
    other = spec[(nn.Conv1d, layer_spec)]
    H.ensure('lookup:other-type-gets-default',
             H.same_object(other, cost_spec_zero_fn if default == 'zero' else cost_spec_fail_fn))


def h_builtin_constraints(H):
    """exact contracts of the two built-in constraints"""
    cin, cout, g = H.int('cin'), H.int('cout'), H.int('g')
    kx, ky = H.int('kx'), H.int('ky')
    spec = {'in_channels': cin, 'out_channels': cout, 'groups': g, 'kernel_size': (kx, ky)}
    H.ensure('conv_dw_constraint:exact', H.iff(conv_dw_constraint(spec), H.and_(cin == g, cout == g)))
    H.ensure('conv_3_constraint:exact', H.iff(conv_3_constraint(spec), H.and_(kx == 3, ky == 3)))
    spec1 = {'in_channels': cin, 'out_channels': cout, 'groups': g, 'kernel_size': (kx,)}
    H.ensure('conv_3_constraint:exact-1d', H.iff(conv_3_constraint(spec1), kx == 3))


def h_defaults(H):
    """the two default functions: zero cost / KeyError"""
    z = cost_spec_zero_fn({'in_channels': H.int('c')})
    H.ensure('default-zero:returns-0', H.eq(H.scalar(z), 0))
    raised = False
    try:
        cost_spec_fail_fn({'in_channels': 3})
    except KeyError:
        raised = True
    H.ensure('default-fail:raises-KeyError', raised)
    bad = False
    try:
        CostSpec(default_behavior='other')
    except ValueError:
        bad = True
    H.ensure('init:rejects-unknown-default', bad)




# ----------------------------------------------------------------------------------------------------------------------
# mode B: registration list of symbolic (unbounded) length, loop invariant on the scan of CostSpec.__getitem__
# ----------------------------------------------------------------------------------------------------------------------
def h_getitem_unbounded(H):
    n = H.int('n')
    H.assume(n >= 0)
    has = H.bool('type_registered')
    constr = H.ifun('constr_of', 1, 'int')      # registration index -> constraint id, 0 = unconstrained (None)
    fn = H.ifun('fn_of', 1, 'int')              # registration index -> cost function id
    match = H.ifun('matches', 1, 'bool')        # constraint id -> its verdict on the layer being looked up
    dflt = H.int('default_fn')
    # the registered patterns of one layer type are pairwise distinct (the statement's 'patterns')
    H.assume(H.forall_int(lambda i: H.forall_int(lambda j: H.implies(H.and_(0 <= i, i < j, j < n), constr(i) != constr(j)))))
    H.assume(H.implies(H.not_(has), n == 0))

    def cm(k):
        return H.and_(constr(k) != 0, match(constr(k)))

    def um(k):
        return constr(k) == 0

    def conflict(hi):
        return H.exists_int(lambda k: H.exists_int(lambda k2: H.and_(0 <= k, k < hi, 0 <= k2, k2 < hi, k != k2, cm(k), cm(k2))))

    def some_cm(hi):
        return H.exists_int(lambda k: H.and_(0 <= k, k < hi, cm(k)))

    def some_um(hi):
        return H.exists_int(lambda k: H.and_(0 <= k, k < hi, um(k)))

    def state(hi, bm, bc):
        """what the statement prescribes for the prefix [0, hi) of the registrations"""
        return H.ite(some_cm(hi),
                     H.exists_int(lambda k: H.and_(0 <= k, k < hi, cm(k), fn(k) == bm, constr(k) == bc)),
                     H.and_(bc == 0, H.ite(some_um(hi),
                                           H.exists_int(lambda k: H.and_(0 <= k, k < hi, um(k), fn(k) == bm)),
                                           bm == dflt)))

    spec = CostSpec()
    spec.data = H.symdict(has, H.sseq('registrations', n, lambda i: (H.symref(constr(i), lambda c: match(c)), H.symref(fn(i)))))
    spec.default = H.symref(dflt)
    H.invariant('CostSpec.__getitem__', 0,
                lambda env, i: H.and_(H.not_(conflict(i)), state(i, H.ref_id(env.best_match), H.ref_id(env.best_constr))),
                {'best_match': lambda: H.fresh_ref('best_match'), 'best_constr': lambda: H.fresh_ref('best_constr', lambda c: match(c))})
    raised = False
    r = None
    try:
        r = spec[('layer-type', 'layer-spec')]
    except KeyError:
        raised = True
    if raised:
        H.ensure('getitem:raises-only-on-two-constrained-matches', conflict(n), 'raises')
    else:
        H.ensure('getitem:no-silent-pick-among-conflicting-matches', H.not_(conflict(n)))
        rid = H.ref_id(r)
        H.ensure('getitem:result-is-what-the-statement-prescribes',
                 H.ite(some_cm(n),
                       H.exists_int(lambda k: H.and_(0 <= k, k < n, cm(k), fn(k) == rid)),
                       H.ite(some_um(n),
                             H.exists_int(lambda k: H.and_(0 <= k, k < n, um(k), fn(k) == rid)),
                             rid == dflt)))


PROPERTY = {
    'C15': dict(
        level='proof',
        explanation='every clause of the statement is a post-condition of the real CostSpec.__getitem__/__setitem__: (a) loop-free '
                    'proof for all registration sequences of length 0..4 over {unconstrained, 3 constraints} with symbolic constraint '
                    'verdicts (covers the quantifier of the property exhaustively), (b) unbounded-length proof through a loop invariant '
                    'on the scan (inv-init / inv-pres / post from inv).  Order independence: the post-conditions mention only the set of '
                    'registrations.',
        not_decided=[],
        assumptions=['patterns registered for one layer type are pairwise distinct (the same pattern registered twice is outside the statement)',
                     'constraint callables are pure functions of the layer spec'],
    ),
}


HARNESSES = [
    dict(name='lookup-small', fn='h_lookup_small', property='C15',
         functions=['plinio/cost/cost_spec.py::CostSpec.__init__', 'plinio/cost/cost_spec.py::CostSpec.__setitem__',
                    'plinio/cost/cost_spec.py::CostSpec.__getitem__'],
         quick=[dict(n=n, default=d) for n in (0, 1, 2, 3, 4) for d in ('zero', 'fail')],
         thorough=[dict(n=n, default=d) for n in (0, 1, 2, 3, 4) for d in ('zero', 'fail')]),
    dict(name='getitem-unbounded', fn='h_getitem_unbounded', property='C15', native=False, crosscheck=0,
         functions=['plinio/cost/cost_spec.py::CostSpec.__getitem__'],
         quick=[{}], thorough=[{}]),
    dict(name='builtin-constraints', fn='h_builtin_constraints', property=['C15', 'C04', 'C16'],
         functions=['plinio/cost/pattern.py::conv_dw_constraint', 'plinio/cost/pattern.py::conv_3_constraint'],
         quick=[{}], thorough=[{}]),
    dict(name='defaults', fn='h_defaults', property='C15',
         functions=['plinio/cost/cost_spec.py::cost_spec_zero_fn', 'plinio/cost/cost_spec.py::cost_spec_fail_fn'],
         quick=[{}], thorough=[{}]),
]
