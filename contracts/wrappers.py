"""Wrapper level (PIT / MPS / SuperNet): cost aggregation (C04, C05, C06), observers (C18), mode restoration (C07).

Functions under contract: plinio/methods/dnas_base/dnas.py DNAS.__init__/cost/get_cost/_create_cost_fn_map; plinio/methods/pit/pit.py
PIT.__init__/_get_single_cost/_single_cost_fn_map/cost_specification/summary; plinio/methods/mps/mps.py MPS.__init__/_get_single_cost/
_single_cost_fn_map/cost_specification/summary; plinio/methods/supernet/supernet.py SuperNet.__init__/_get_single_cost/
_single_cost_fn_map/cost_specification/summary; supernet/nn/combiner.py SuperNetCombiner.get_cost/set_sn_branch/summary;
plinio/graph/inspection.py uniquify_leaf_modules, shapes_dict.

The torch.fx conversion is replaced by an assumed contract (H.patch of `convert`) that returns a hand-built module tree with its two
leaf-module lists: layers invoked twice appear twice in the per-invocation list, once in the unique list (computed by the real
uniquify_leaf_modules).  Cost functions are *probing* specifications whose value encodes which (layer, shape) pairs were charged.
"""
import torch
import torch.nn as nn
from plinio.cost import CostSpec, params, ops
from plinio.graph.inspection import uniquify_leaf_modules
from plinio.graph.features_calculation import ConstFeaturesCalculator
from plinio.methods.pit.pit import PIT
from plinio.methods.pit.nn.conv1d import PITConv1d
from plinio.methods.pit.nn.linear import PITLinear
from plinio.methods.pit.nn.features_masker import PITFeaturesMasker
from plinio.methods.pit.nn.timestep_masker import PITTimestepMasker
from plinio.methods.pit.nn.dilation_masker import PITDilationMasker
from plinio.methods.mps.mps import MPS
from plinio.methods.mps.nn.qtz import MPSPerLayerQtz, MPSBiasQtz
from plinio.methods.mps.nn.conv2d import MPSConv2d
from plinio.methods.mps.nn.linear import MPSLinear
from plinio.methods.mps.nn.identity import MPSIdentity
from plinio.methods.mps.quant.quantizers import PACTAct, MinMaxWeight, QuantizerBias
from plinio.methods.supernet.supernet import SuperNet
from plinio.methods.supernet.nn.combiner import SuperNetCombiner


class Meta:
    def __init__(self, shape):
        self.shape = shape


class Node:
    """what the cost paths read of a torch.fx node: target and the propagated output shape"""
    def __init__(self, target, shape):
        self.target = target
        self.meta = {'tensor_meta': Meta(shape)}


def _probe_spec(shared, w_conv, w_lin):
    """probing cost specification: value = weight x effective sizes x output positions (identifies what was charged)"""
    def f_conv(v):
        return w_conv * v['out_channels'] * v['in_channels'] * v['kernel_size'][0] * v['output_shape'][2]

    def f_lin(v):
        return w_lin * v['out_features'] * v['in_features'] * v['output_shape'][1]
    s = CostSpec(shared=shared, default_behavior='zero')
    s[(nn.Conv1d, None)] = f_conv
    s[(nn.Linear, None)] = f_lin
    return s, f_conv, f_lin


# ------------------------------------------------------------------------------------------------- PIT
def _pit_model(H, spec, full_cost, discrete):
    la = PITConv1d(nn.Conv1d(2, 3, 3), PITFeaturesMasker(3), PITTimestepMasker(3), PITDilationMasker(3))
    ld = PITLinear(nn.Linear(3, 2), PITFeaturesMasker(2))
    plain = nn.Conv1d(3, 3, 1)
    for l, c in ((la, 2), (ld, 3)):
        l.input_features_calculator = ConstFeaturesCalculator(c)
    H.set_(la.out_features_masker.alpha, H.tensor('a.alpha', (3,)))
    H.set_(la.timestep_masker.beta, H.tensor('a.beta', (3,)))
    H.set_(la.dilation_masker.gamma, H.tensor('a.gamma', H.shape(la.dilation_masker.gamma)))
    H.set_(ld.out_features_masker.alpha, H.tensor('d.alpha', (2,)))
    seed = nn.Sequential(la, plain, ld)
    # layer `a` is invoked twice in one forward pass, with different output lengths
    leaf = [('a', Node('a', (1, 3, 6)), la), ('plain', Node('plain', (1, 3, 6)), plain), ('a', Node('a', (1, 3, 4)), la),
            ('d', Node('d', (1, 2)), ld)]
    H.patch('plinio.methods.pit.pit', 'convert', lambda *a, **k: (seed, leaf, uniquify_leaf_modules(leaf)))
    user = nn.Sequential(nn.Conv1d(2, 3, 3))
    model = PIT(user, cost=spec, input_example=torch.zeros(1, 2, 8), full_cost=full_cost, discrete_cost=discrete)
    return model, la, ld, plain, leaf


def h_pit_cost(H, shared, full_cost, discrete, as_dict):
    w1, w2 = H.real('w_conv'), H.real('w_lin')
    spec, f_conv, f_lin = _probe_spec(shared, w1, w2)
    spec2, g_conv, g_lin = _probe_spec(not shared, H.real('w2_conv'), H.real('w2_lin'))
    cost_arg = {'m1': spec, 'm2': spec2} if as_dict else spec
    model, la, ld, plain, leaf = _pit_model(H, cost_arg, full_cost, discrete)

    def expected(shared_, fc, fl):
        va = la.get_modified_vars()
        vd = ld.get_modified_vars()
        inv = [(1, 3, 6)] if shared_ else [(1, 3, 6), (1, 3, 4)]
        tot = 0
        for shp in inv:
            v = dict(va)
            v['output_shape'] = shp
            tot = H.add(tot, H.scalar(fc(v)))
        v = dict(vd)
        v['output_shape'] = (1, 2)
        tot = H.add(tot, H.scalar(fl(v)))
        if full_cost:
            tot = H.add(tot, H.scalar(fc({'out_channels': 3, 'in_channels': 3, 'kernel_size': (1,), 'output_shape': (1, 3, 6)})))
        return tot
    state0 = _observables(H, model, [la, ld, plain])
    if as_dict:
        c1 = H.scalar(model.get_cost('m1'))
        c2 = H.scalar(model.get_cost('m2'))
        c1b = H.scalar(model.get_cost('m1'))
        H.ensure('pit-cost:metric-m1-sums-the-right-layers-and-invocations', H.eq(c1, expected(shared, f_conv, f_lin)))
        H.ensure('pit-cost:metric-m2-sums-the-right-layers-and-invocations', H.eq(c2, expected(not shared, g_conv, g_lin)))
        H.ensure('pit-cost:repeatable', H.eq(c1, c1b))
    else:
        c1 = H.scalar(model.cost)
        c1b = H.scalar(model.get_cost())
        H.ensure('pit-cost:sums-the-right-layers-and-invocations', H.eq(c1, expected(shared, f_conv, f_lin)))
        H.ensure('pit-cost:repeatable', H.eq(c1, c1b))
        # switching the specification and switching it back restores the same cost values
        model.cost_specification = spec2
        c_other = H.scalar(model.cost)
        H.ensure('pit-cost:new-specification-takes-effect', H.eq(c_other, expected(not shared, g_conv, g_lin)))
        model.cost_specification = spec
        H.ensure('pit-cost:switching-back-restores-the-cost', H.eq(H.scalar(model.cost), c1))
    summ = model.summary()
    H.ensure('pit-summary:reports-every-searchable-layer-once', sorted(summ.keys()) == ['seed.0', 'seed.2'] or sorted(summ.keys()) == ['0', '2'])
    _check_observers(H, 'pit', model, [la, ld, plain], state0)


def _observables(H, model, layers):
    """what the observer property protects: training flags, parameter / buffer tensors (identity and value), cost specification"""
    st = {'training': [m.training for m in model.modules()],
          'params': [(n, p, H.elements(p)) for n, p in model.named_parameters()],
          'buffers': [(n, b, H.elements(b)) for n, b in model.named_buffers()],
          'requires_grad': [H.get_requires_grad(p) for _, p in model.named_parameters()],
          'spec': model.cost_specification}
    return st


def _check_observers(H, tag, model, layers, st):
    H.ensure(tag + '-observer:training-flags-unchanged', [m.training for m in model.modules()] == st['training'])
    now = list(model.named_parameters())
    H.ensure(tag + '-observer:parameters-unchanged',
             len(now) == len(st['params']) and all(n == n0 and H.same_object(p, p0) and H.eq(H.elements(p), e0) for (n, p), (n0, p0, e0) in zip(now, st['params'])))
    nowb = list(model.named_buffers())
    H.ensure(tag + '-observer:buffers-unchanged',
             len(nowb) == len(st['buffers']) and all(n == n0 and H.eq(H.elements(b), e0) for (n, b), (n0, b0, e0) in zip(nowb, st['buffers'])))
    H.ensure(tag + '-observer:trainability-unchanged', [H.get_requires_grad(p) for _, p in model.named_parameters()] == st['requires_grad'])
    H.ensure(tag + '-observer:cost-specification-unchanged', H.same_object(model.cost_specification, st['spec']))


def h_pit_mode(H, training):
    """PIT.__init__ keeps the training / eval mode it found (convert forces eval() on the seed)"""
    spec, _, _ = _probe_spec(True, 1.0, 1.0)
    la = PITConv1d(nn.Conv1d(2, 3, 3), PITFeaturesMasker(3), PITTimestepMasker(3), PITDilationMasker(3))
    la.input_features_calculator = ConstFeaturesCalculator(2)
    seed = nn.Sequential(la, nn.ReLU())
    leaf = [('0', Node('0', (1, 3, 6)), la)]

    def fake_convert(model, *a, **k):
        seed.eval()                     # what tracing does
        return seed, leaf, list(leaf)
    H.patch('plinio.methods.pit.pit', 'convert', fake_convert)
    user = nn.Sequential(nn.Conv1d(2, 3, 3))
    user.train(training)
    model = PIT(user, cost=spec, input_example=torch.zeros(1, 2, 8))
    H.ensure('import:wrapper-and-seed-keep-the-mode-they-found',
             all(m.training == training for m in model.modules()))


# ------------------------------------------------------------------------------------------------- MPS
def _mps_model(H, spec, full_cost, gumbel=False):
    act = MPSPerLayerQtz((2, 8), PACTAct, gumbel_softmax=gumbel)
    inp = MPSIdentity(MPSPerLayerQtz((8,), PACTAct, gumbel_softmax=gumbel))
    l1 = MPSConv2d(nn.Conv2d(1, 2, 1), act, MPSPerLayerQtz((4, 8), MinMaxWeight, {'cout': 2}, gumbel_softmax=gumbel), MPSBiasQtz(QuantizerBias, {'precision': 32, 'cout': 2}))
    l2 = MPSLinear(nn.Linear(2, 2), MPSPerLayerQtz((8,), PACTAct, gumbel_softmax=gumbel), MPSPerLayerQtz((2, 8), MinMaxWeight, {'cout': 2}, gumbel_softmax=gumbel),
                   MPSBiasQtz(QuantizerBias, {'precision': 32, 'cout': 2}))
    l1.in_mps_quantizer = inp.out_mps_quantizer
    l2.in_mps_quantizer = act
    l1.input_features_calculator = ConstFeaturesCalculator(1)
    l2.input_features_calculator = ConstFeaturesCalculator(2)
    plain = nn.Conv2d(2, 2, 1)
    for q, tag in ((act, 'act'), (l1.w_mps_quantizer, 'w1'), (l2.w_mps_quantizer, 'w2')):
        a = H.tensor(tag + '.alpha', (2,))
        H.assume(H.ne(H.elements(a)[0], H.elements(a)[1]))
        H.set_(q.alpha, a)
    seed = nn.Sequential(inp, l1, plain, l2)
    leaf = [('inp', Node('inp', (1, 1, 2, 2)), inp), ('l1', Node('l1', (1, 2, 2, 2)), l1), ('plain', Node('plain', (1, 2, 2, 2)), plain),
            ('l1', Node('l1', (1, 2, 1, 1)), l1), ('l2', Node('l2', (1, 2)), l2)]
    H.patch('plinio.methods.mps.mps', 'convert', lambda *a, **k: (seed, leaf, uniquify_leaf_modules(leaf)))
    model = MPS(nn.Sequential(nn.Conv2d(1, 2, 1)), cost=spec, input_example=torch.zeros(1, 1, 2, 2), full_cost=full_cost, gumbel_softmax=gumbel)
    return model, inp, l1, l2, plain, act


def _mps_probe(shared, wc, wl):
    def f_conv(v):
        return wc * v['out_channels'] * v['in_channels'] * v['output_shape'][2] * v['output_shape'][3] * (v['w_precision'] + 10 * v['in_precision']
                                                                                                        if 'w_precision' in v else 1)

    def f_lin(v):
        return wl * v['out_features'] * v['in_features'] * (v['w_precision'] + 10 * v['in_precision'] if 'w_precision' in v else 1)
    s = CostSpec(shared=shared, default_behavior='zero')
    s[(nn.Conv2d, None)] = f_conv
    s[(nn.Linear, None)] = f_lin
    return s, f_conv, f_lin


def h_mps_cost(H, shared, full_cost, train_gumbel=False):
    wc, wl = H.real('w_conv'), H.real('w_lin')
    spec, f_conv, f_lin = _mps_probe(shared, wc, wl)
    model, inp, l1, l2, plain, act = _mps_model(H, spec, full_cost, train_gumbel)
    model.train(train_gumbel)
    for q in (inp.out_mps_quantizer, act, l1.w_mps_quantizer, l2.out_mps_quantizer, l2.w_mps_quantizer):
        q.sample_alpha()                       # the forward pass the statement presupposes
    state0 = _observables(H, model, [l1, l2, plain])
    c = H.scalar(model.cost)
    if train_gumbel:
        # training with Gumbel noise: the cost is a relaxed mix, but reading it is still an observer (no new noise is drawn)
        H.ensure('mps-cost:repeatable', H.eq(H.scalar(model.get_cost()), c))
        model.summary()
        _check_observers(H, 'mps', model, [l1, l2, plain], state0)
        return
    s1, s2 = l1.summary(), l2.summary()
    inv = [(1, 2, 2, 2)] if shared else [(1, 2, 2, 2), (1, 2, 1, 1)]
    tot = 0
    for shp in inv:
        tot = H.add(tot, H.scalar(f_conv({'out_channels': 2, 'in_channels': 1, 'output_shape': shp, 'w_precision': s1['w_precision'], 'in_precision': s1['in_precision']})))
    tot = H.add(tot, H.scalar(f_lin({'out_features': 2, 'in_features': 2, 'w_precision': s2['w_precision'], 'in_precision': s2['in_precision']})))
    if full_cost:
        tot = H.add(tot, H.scalar(f_conv({'out_channels': 2, 'in_channels': 2, 'output_shape': (1, 2, 2, 2)})))
    H.ensure('mps-cost:exact-cost-of-the-reported-assignment-over-the-right-layers-and-invocations', H.eq(c, tot))
    H.ensure('mps-cost:repeatable', H.eq(H.scalar(model.get_cost()), c))
    summ = model.summary()
    H.ensure('mps-summary:reports-every-searchable-layer', len(summ) == 3)
    _check_observers(H, 'mps', model, [l1, l2, plain], state0)


# ------------------------------------------------------------------------------------------------- SuperNet
def _supernet_model(H, spec, full_cost, n):
    comb = SuperNetCombiner(n, False, False)
    branches = [[nn.Conv1d(2, 3, 3), nn.Conv1d(3, 3, 1)], [nn.Conv1d(2, 3, 1)], [nn.Identity()]][:n]
    fixed = nn.Conv1d(3, 2, 1)
    mods = []
    leaf = []
    for i, br in enumerate(branches):
        for j, m in enumerate(br):
            name = 'blk.sn_branches.%d.%d' % (i, j)
            leaf.append((name, Node(name, (1, 3, 6)), m))
            mods.append(m)
    leaf.append(('blk.sn_combiner', Node('blk.sn_combiner', (1, 3, 6)), comb))
    leaf.append(('fixed', Node('fixed', (1, 2, 6)), fixed))
    # the choice block is invoked a second time (shorter sequence)
    leaf.append(('blk.sn_combiner', Node('blk.sn_combiner', (1, 3, 4)), comb))
    seed = nn.Sequential(*(mods + [comb, fixed]))

    def fake_convert(*a, **k):
        u = uniquify_leaf_modules(leaf)
        for i, br in enumerate(branches):
            comb.set_sn_branch(i, uniquify_leaf_modules([l for l in leaf if ('sn_branches.%d.' % i) in l[0]]))
        return seed, leaf, u
    H.patch('plinio.methods.supernet.supernet', 'convert', fake_convert)
    model = SuperNet(nn.Sequential(nn.Conv1d(2, 3, 3)), cost=spec, input_example=torch.zeros(1, 2, 8), full_cost=full_cost)
    return model, comb, branches, fixed


def h_supernet_cost(H, shared, full_cost, n, one_hot):
    wc = H.real('w_conv')
    spec, f_conv, _ = _probe_spec(shared, wc, 1.0)
    model, comb, branches, fixed = _supernet_model(H, spec, full_cost, n)
    theta = H.tensor('theta', (n,))
    th = H.elements(theta)
    H.assume(H.and_(H.eq(H.sum(th), 1), *[H.ge(t, 0) for t in th]))        # C10: sampled coefficients are a probability vector
    if one_hot:
        H.assume(H.and_(*[H.or_(H.eq(t, 0), H.eq(t, 1)) for t in th]))
    comb.theta_alpha = theta
    H.assume(wc >= 0)
    state0 = _observables(H, model, [fixed])
    c = H.scalar(model.cost)

    def bcost(br):
        tot = 0
        for m in br:
            if H.type_name(m) == 'Conv1d':
                tot = H.add(tot, H.scalar(f_conv({'out_channels': m.out_channels, 'in_channels': m.in_channels, 'kernel_size': m.kernel_size,
                                                  'output_shape': (1, 3, 6)})))
        return tot
    B = [bcost(br) for br in branches]
    mix = H.sum([H.mul(th[i], B[i]) for i in range(n)])
    times = 1 if shared else 2
    fixed_c = H.scalar(f_conv({'out_channels': 2, 'in_channels': 3, 'kernel_size': (1,), 'output_shape': (1, 2, 6)})) if full_cost else 0
    H.ensure('supernet-cost:coefficient-weighted-mix-of-branch-costs-plus-fixed-layers', H.eq(c, H.add(H.mul(times, mix), fixed_c)))
    lo, hi = B[0], B[0]
    for b in B[1:]:
        lo, hi = H.min(lo, b), H.max(hi, b)
    H.ensure('supernet-cost:between-cheapest-and-most-expensive-selection',
             H.and_(H.ge(c, H.add(H.mul(times, lo), fixed_c)), H.le(c, H.add(H.mul(times, hi), fixed_c))))
    if one_hot:
        for i in range(n):
            H.ensure('supernet-cost:hard-selection-costs-the-selected-branch', H.implies(H.eq(th[i], 1), H.eq(c, H.add(H.mul(times, B[i]), fixed_c))))
    H.ensure('supernet-cost:repeatable', H.eq(H.scalar(model.get_cost()), c))
    H.ensure('supernet-observer:sampled-coefficients-unchanged-by-cost', H.eq(comb.theta_alpha, theta))
    _check_observers(H, 'supernet', model, [fixed], state0)


def h_supernet_cost_dict(H, full_cost):
    """two metrics in one specification dictionary: each get_cost(name) is computed with its own specification, in any order"""
    s1, f1, _ = _probe_spec(True, H.real('w1'), 1.0)
    s2, f2, _ = _probe_spec(False, H.real('w2'), 1.0)
    model, comb, branches, fixed = _supernet_model(H, {'m1': s1, 'm2': s2}, full_cost, 2)
    theta = H.tensor('theta', (2,))
    comb.theta_alpha = theta
    th = H.elements(theta)

    def expect(f, times):
        b0 = H.add(H.scalar(f({'out_channels': 3, 'in_channels': 2, 'kernel_size': (3,), 'output_shape': (1, 3, 6)})),
                   H.scalar(f({'out_channels': 3, 'in_channels': 3, 'kernel_size': (1,), 'output_shape': (1, 3, 6)})))
        b1 = H.scalar(f({'out_channels': 3, 'in_channels': 2, 'kernel_size': (1,), 'output_shape': (1, 3, 6)}))
        mix = H.add(H.mul(th[0], b0), H.mul(th[1], b1))
        fx = H.scalar(f({'out_channels': 2, 'in_channels': 3, 'kernel_size': (1,), 'output_shape': (1, 2, 6)})) if full_cost else 0
        return H.add(H.mul(times, mix), fx)
    c1 = H.scalar(model.get_cost('m1'))
    c2 = H.scalar(model.get_cost('m2'))
    c1b = H.scalar(model.get_cost('m1'))
    H.ensure('supernet-cost:metric-m1-uses-its-own-specification', H.eq(c1, expect(f1, 1)))
    H.ensure('supernet-cost:metric-m2-uses-its-own-specification', H.eq(c2, expect(f2, 2)))
    H.ensure('supernet-cost:order-of-queries-does-not-matter', H.eq(c1, c1b))
    model.cost_specification = s2
    c_single = H.scalar(model.cost)
    model.cost_specification = {'m1': s1, 'm2': s2}
    H.ensure('supernet-cost:switching-specification-and-back-restores-the-values',
             H.and_(H.eq(c_single, c2), H.eq(H.scalar(model.get_cost('m1')), c1), H.eq(H.scalar(model.get_cost('m2')), c2)))


def h_supernet_cost_sampled(H, n, training, hard):
    """coefficients obtained by the real sampler from ANY raw coefficients (ties included): the cost still lies between the
    cheapest and the most expensive selection"""
    spec, f_conv, _ = _probe_spec(True, 1.0, 1.0)
    model, comb, branches, fixed = _supernet_model(H, spec, False, n)
    comb.hard_softmax = hard
    H.set_(comb.alpha, H.tensor('alpha', (n,)))
    model.train(training)
    comb.sample_alpha()
    c = H.scalar(model.cost)
    B = []
    for br in branches:
        tot = 0
        for m in br:
            if H.type_name(m) == 'Conv1d':
                tot = H.add(tot, H.scalar(f_conv({'out_channels': m.out_channels, 'in_channels': m.in_channels, 'kernel_size': m.kernel_size, 'output_shape': (1, 3, 6)})))
        B.append(tot)
    H.ensure('supernet-cost:between-cheapest-and-most-expensive-selection-for-any-raw-coefficients', H.and_(H.ge(c, min(B)), H.le(c, max(B))))


def h_supernet_summary_idempotent(H, n, training, stale=False):
    """summary() is an observer of the sampled coefficients (the ones get_cost reads): whether they are the sample of the current alpha or - stale=True - what
    the last forward pass left before alpha was updated by an optimizer step (an arbitrary probability vector)"""
    comb = SuperNetCombiner(n, False, True)
    alpha = H.tensor('alpha', (n,))
    al = H.elements(alpha)
    for i in range(n):
        for j in range(i):
            H.assume(H.ne(al[i], al[j]))
    H.set_(comb.alpha, alpha)
    comb.train(training)
    comb.sample_alpha()
    if stale:
        th = H.tensor('theta', (n,))
        H.assume(H.and_(H.ge(th, 0), H.eq(H.sum(H.elements(th)), 1)))
        comb.theta_alpha = th
    before = H.elements(comb.theta_alpha)
    comb.summary()
    H.ensure('supernet-observer:summary-keeps-the-sampled-coefficients', H.eq(H.elements(comb.theta_alpha), before))
    H.ensure('supernet-observer:summary-keeps-alpha', H.eq(comb.alpha, alpha))


def h_cost_ignores_weights(H, method):
    """C12: the cost depends on the architectural parameters only: overwriting every network weight / bias (and, for MPS, every
    quantizer clip value) with other arbitrary values leaves every built-in metric unchanged"""
    if method == 'pit':
        model, la, ld, plain, leaf = _pit_model(H, {'params': params, 'ops': ops}, True, False)
        names = ('params', 'ops')
    elif method == 'mps':
        from plinio.cost import params_bit, ops_bit
        model, inp, l1, l2, plain, act = _mps_model(H, {'params_bit': params_bit, 'ops_bit': ops_bit}, False)
        model.eval()
        for q in (inp.out_mps_quantizer, act, l1.w_mps_quantizer, l2.out_mps_quantizer, l2.w_mps_quantizer):
            q.sample_alpha()
        names = ('params_bit', 'ops_bit')
    else:
        model, comb, branches, fixed = _supernet_model(H, {'params': params, 'ops': ops}, True, 2)
        th = H.tensor('theta', (2,))
        H.assume(H.and_(H.ge(th, 0), H.eq(H.sum(H.elements(th)), 1)))         # C10: the sampled coefficients are a probability vector
        comb.theta_alpha = th
        names = ('params', 'ops')
    before = [H.scalar(model.get_cost(n)) for n in names]
    k = 0
    for pname, p in model.named_net_parameters():
        H.set_(p, H.tensor('new.%d' % k, H.shape(p)))
        k += 1
    after = [H.scalar(model.get_cost(n)) for n in names]
    for n, b, a in zip(names, before, after):
        H.ensure('cost:%s-does-not-depend-on-network-weights' % n, H.eq(a, b))
        H.ensure('cost:%s-defined-and-non-negative' % n, H.ge(b, 0))


def h_export_observer(H, method, training, add_bn):
    """export() is an observer: whatever the conversion does to its own copy, the searched model keeps its mode, parameters,
    buffers, fused BatchNorms and cost; the conversion itself (torch.fx) is an assumed contract that forces eval() while tracing"""
    if method == 'pit':
        spec, _, _ = _probe_spec(True, 1.0, 1.0)
        model, la, ld, plain, leaf = _pit_model(H, spec, True, True)
        bn = nn.BatchNorm1d(3)
        la.bn = bn
        layers = [la, ld, plain]
        modname = 'plinio.methods.pit.pit'
    elif method == 'mps':
        spec, _, _ = _mps_probe(True, 1.0, 1.0)
        model, inp, l1, l2, plain, act = _mps_model(H, spec, True)
        layers = [l1, l2, plain]
        modname = 'plinio.methods.mps.mps'
    else:
        spec, _, _ = _probe_spec(True, 1.0, 1.0)
        model, comb, branches, fixed = _supernet_model(H, spec, True, 2)
        layers = [fixed]
        modname = 'plinio.methods.supernet.supernet'
    model.train(training)
    seed = model.seed
    exported = nn.Sequential(nn.ReLU())

    def fake_export_convert(m, *a, **k):
        m.eval()                        # tracer.trace(model.eval())
        return exported, [], []
    H.patch(modname, 'convert', fake_export_convert)
    state0 = _observables(H, model, layers)
    bn0 = la.bn if method == 'pit' else None
    if method == 'pit':
        out = model.export(add_bn=add_bn)
    else:
        out = model.export()
    H.ensure(method + '-export:returns-the-converted-network', H.same_object(out, exported))
    _check_observers(H, method + '-export', model, layers, state0)
    if method == 'pit':
        H.ensure('pit-export:fused-batchnorm-still-attached', H.same_object(la.bn, bn0))
    out2 = model.export(add_bn=True) if method == 'pit' else model.export()
    _check_observers(H, method + '-export-twice', model, layers, state0)


PROPERTY = {
    'C06': dict(
        level='other',
        explanation='SuperNet._get_single_cost / SuperNetCombiner.get_cost: cost == sum over choice-block invocations of the coefficient-weighted branch costs '
                    '(+ fixed layers with full_cost), between the cheapest and the most expensive selection for every probability vector and for the output of the '
                    'real sampler on ANY raw coefficients (ties included), == the selected branch under one-hot; dict specifications; 1..3 branches',
        not_decided=['"equals the same metric on the exported network" over ALL SuperNets: discharged (parameters and operations, real convert / export) only on the three enumerated '
                     'architectures of contracts/whole_supernet.py', 'per-invocation shapes come from tensor_meta (produced by the ShapeProp contract)'],
        assumptions=['convert() / link_combiners_to_branches under an assumed contract (module tree, leaf lists, branch lists)'],
    ),
    'C18': dict(
        level='other',
        explanation='write frames of cost / get_cost / summary / cost_specification setter / export() of the three wrappers against a fixed list of observables '
                    '(training flags, parameter and buffer tensors, trainability, cost specification, sampled coefficients, fused BatchNorms); switching the '
                    'specification and back restores the values; export twice leaves the same state.  The conversion inside export() is an assumed contract '
                    '(forces eval() on the model it traces and returns a new module).',
        not_decided=['equality of repeated exports as networks; outputs before / after export are compared only on the enumerated whole models (contracts/whole_pit.py, whole_supernet.py, whole_mps.py)',
                     'export() in the middle of a search (training mode): the cost read after it equals the cost read before it - discharged with the real convert() on the '
                     'enumerated MPS models only (contracts/whole_mps.py; defect found there and fixed); SuperNet with Gumbel noise is random and not compared'],
        assumptions=['writes that only add non-observable keys (output_shape added to vars(layer) of fixed layers by the full_cost path) are not failed'],
    ),
}

_B = (True, False)
_P = 'plinio/methods/'
HARNESSES = [
    dict(name='pit-cost', fn='h_pit_cost', property=['C04', 'C18', 'C12'],
         functions=[_P + 'pit/pit.py::PIT._get_single_cost', _P + 'pit/pit.py::PIT._single_cost_fn_map', _P + 'pit/pit.py::PIT.__init__', _P + 'pit/pit.py::PIT.cost_specification',
                    _P + 'pit/pit.py::PIT.summary', _P + 'dnas_base/dnas.py::DNAS.get_cost', _P + 'dnas_base/dnas.py::DNAS.cost', _P + 'dnas_base/dnas.py::DNAS._create_cost_fn_map',
                    'plinio/graph/inspection.py::uniquify_leaf_modules', 'plinio/graph/inspection.py::shapes_dict'],
         quick=[dict(shared=s, full_cost=f, discrete=d, as_dict=a) for s in _B for f in _B for d, a in ((True, False), (False, True))],
         thorough=[dict(shared=s, full_cost=f, discrete=d, as_dict=a) for s in _B for f in _B for d in _B for a in _B], timeout=60),
    dict(name='pit-mode', fn='h_pit_mode', property=['C07'], functions=[_P + 'pit/pit.py::PIT.__init__'],
         quick=[dict(training=t) for t in _B], thorough=[dict(training=t) for t in _B]),
    dict(name='mps-cost', fn='h_mps_cost', property=['C05', 'C18'],
         functions=[_P + 'mps/mps.py::MPS._get_single_cost', _P + 'mps/mps.py::MPS._single_cost_fn_map', _P + 'mps/mps.py::MPS.__init__', _P + 'mps/mps.py::MPS.summary'],
         quick=[dict(shared=s, full_cost=f) for s in _B for f in _B] + [dict(shared=True, full_cost=False, train_gumbel=True)],
         thorough=[dict(shared=s, full_cost=f, train_gumbel=g) for s in _B for f in _B for g in (False, True)], timeout=60),
    dict(name='supernet-cost', fn='h_supernet_cost', property=['C06', 'C18'],
         functions=[_P + 'supernet/supernet.py::SuperNet._get_single_cost', _P + 'supernet/supernet.py::SuperNet._single_cost_fn_map', _P + 'supernet/supernet.py::SuperNet.__init__',
                    _P + 'supernet/nn/combiner.py::SuperNetCombiner.get_cost', _P + 'supernet/nn/combiner.py::SuperNetCombiner.set_sn_branch'],
         quick=[dict(shared=s, full_cost=f, n=n, one_hot=o) for s in _B for f in _B for n, o in ((2, False), (3, True))],
         thorough=[dict(shared=s, full_cost=f, n=n, one_hot=o) for s in _B for f in _B for n in (1, 2, 3) for o in _B], timeout=60),
    dict(name='cost-ignores-weights', fn='h_cost_ignores_weights', property=['C12'],
         functions=[_P + 'pit/pit.py::PIT._get_single_cost', _P + 'mps/mps.py::MPS._get_single_cost', _P + 'supernet/supernet.py::SuperNet._get_single_cost',
                    _P + 'pit/pit.py::PIT.named_net_parameters', _P + 'mps/mps.py::MPS.named_net_parameters', _P + 'supernet/supernet.py::SuperNet.named_net_parameters'],
         quick=[dict(method=m) for m in ('pit', 'mps', 'supernet')], thorough=[dict(method=m) for m in ('pit', 'mps', 'supernet')], timeout=90),
    dict(name='supernet-cost-dict', fn='h_supernet_cost_dict', property=['C06', 'C18'],
         functions=[_P + 'supernet/supernet.py::SuperNet._get_single_cost', _P + 'supernet/supernet.py::SuperNet.cost_specification', _P + 'dnas_base/dnas.py::DNAS.get_cost'],
         quick=[dict(full_cost=f) for f in _B], thorough=[dict(full_cost=f) for f in _B]),
    dict(name='supernet-cost-sampled', fn='h_supernet_cost_sampled', property=['C06'],
         functions=[_P + 'supernet/nn/combiner.py::SuperNetCombiner.get_cost', _P + 'supernet/nn/combiner.py::SuperNetCombiner.sample_alpha_sm'],
         quick=[dict(n=n, training=t, hard=h) for n in (2, 3) for t, h in ((True, True), (False, False), (True, False))],
         thorough=[dict(n=n, training=t, hard=h) for n in (1, 2, 3) for t in _B for h in _B]),
    dict(name='export-observer', fn='h_export_observer', property=['C18'],
         functions=[_P + 'pit/pit.py::PIT.export', _P + 'mps/mps.py::MPS.export', _P + 'supernet/supernet.py::SuperNet.export'],
         quick=[dict(method=m, training=t, add_bn=(m != 'pit' or t)) for m in ('pit', 'mps', 'supernet') for t in _B],
         thorough=[dict(method=m, training=t, add_bn=ab) for m in ('pit', 'mps', 'supernet') for t in _B for ab in ((True, False) if m == 'pit' else (True,))]),
    dict(name='supernet-summary-idempotent', fn='h_supernet_summary_idempotent', property=['C18'],
         functions=[_P + 'supernet/nn/combiner.py::SuperNetCombiner.summary'],
         quick=[dict(n=n, training=t, stale=st) for n in (2, 3) for t in _B for st in _B], thorough=[dict(n=n, training=t, stale=st) for n in (1, 2, 3, 4) for t in _B for st in _B]),
]
