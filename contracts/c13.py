"""C13 - quantizers emit values that fit their declared bit-width and scale.

Functions under contract (plinio/methods/mps/quant/quantizers/): minmax_weight.py  MinMaxWeight.__init__/forward/scale/
_compute_min_max_sym, MinMaxSymSTE.forward/backward, _min_max_quantize; pact_act.py  PACTAct.__init__/forward/scale,
PACTActSTE.forward; qtz_bias.py  QuantizerBias.__init__/forward/scale, QuantizeBiasSTE.forward/backward, RoundSTE.forward/backward;
dummy.py DummyQuantizer.forward/scale; quantizer.py Quantizer.__init__ and the precision / dequantize accessors.

Tensor shapes are concrete and small; the clauses are element-wise and a channel interacts with a clause about two of its
elements only through its maximum, so a channel of three symbolic elements (the two under test and one standing for the
maximum of all the others) represents every channel length (small-model argument, stated as an assumption in the evidence).
All element values are arbitrary reals.
"""
import torch
from plinio.methods.mps.quant.quantizers.minmax_weight import MinMaxWeight, MinMaxSymSTE
from plinio.methods.mps.quant.quantizers.pact_act import PACTAct, PACTActSTE
from plinio.methods.mps.quant.quantizers.qtz_bias import QuantizerBias, QuantizeBiasSTE, RoundSTE
from plinio.methods.mps.quant.quantizers.dummy import DummyQuantizer


def _shape(rank):
    return (2, 3) if rank == 2 else (1, 3, 1, 1)


def h_weight(H, p, rank):
    shape = _shape(rank)
    C, n = shape[0], 3
    x = H.tensor('w', shape)
    q = MinMaxWeight(p, C)
    q.dequantize = True
    fq = q(x)
    sc_fq = q.scale
    q.dequantize = False
    qi = q(x)
    sc = q.scale
    H.observe('fq', fq)
    H.observe('int', qi)
    H.observe('scale', sc)
    xs, fs, qs = H.elements(x), H.elements(fq), H.elements(qi)
    scs = H.elements(sc)
    H.ensure('weight:output-shapes', H.shape(fq) == shape and H.shape(qi) == shape and H.shape(sc) == (C,))
    H.ensure('weight:scale-same-in-both-modes', H.eq(sc, sc_fq))
    lo, hi = -(2 ** (p - 1)) if p > 0 else 0, (2 ** (p - 1) - 1) if p > 0 else 0
    for c in range(C):
        s = scs[c]
        for i in range(n):
            k = c * n + i
            if p == 0:
                H.ensure('weight:all-zero-at-0-bit', H.and_(H.eq(qs[k], 0), H.eq(fs[k], 0)))
                continue
            H.ensure('weight:integer-valued', H.is_integer(qs[k]))
            H.ensure('weight:in-signed-range', H.and_(H.ge(qs[k], lo), H.le(qs[k], hi)))
            H.ensure('weight:fake-quantized-equals-integer-times-reported-scale', H.eq(fs[k], H.mul(qs[k], s)))
            H.ensure('weight:error-below-one-step', H.and_(H.lt(H.sub(xs[k], fs[k]), s), H.lt(H.sub(fs[k], xs[k]), s)))
            for j in range(n):
                if j != i:
                    H.ensure('weight:monotone-within-channel', H.implies(H.le(xs[k], xs[c * n + j]), H.le(qs[k], qs[c * n + j])))
        if p != 0:
            H.ensure('weight:scale-positive', H.gt(s, 0))
    if p == 0:
        H.ensure('weight:scale-zero-at-0-bit', H.eq(sc, 0))


def h_weight_backward(H):
    g = H.tensor('g', (2, 3))
    out = MinMaxSymSTE.backward(None, g)
    H.ensure('weight-backward:pass-through', H.eq(out[0], g))
    H.ensure('weight-backward:none-for-constants', H.and_(len(out) == 5, *[o is None for o in out[1:]]))


def h_act(H, p):
    n = 3
    x = H.tensor('x', (n,))
    clip = H.tensor('clip', (1,))
    cv = H.scalar(clip)
    H.assume(H.and_(H.ge(cv, 0.05), H.le(cv, 1000)))
    q = PACTAct(p)
    H.set_(q.clip_val, clip)
    q.dequantize = True
    fq = q(x)
    q.dequantize = False
    qi = q(x)
    sc = H.scalar(q.scale)
    H.observe('fq', fq)
    H.observe('int', qi)
    H.observe('scale', sc)
    xs, fs, qs = H.elements(x), H.elements(fq), H.elements(qi)
    top = 2 ** p - 1
    step = H.div(H.add(cv, 0.001), top)        # the step of the floor-based grid the integer backends assume
    for i in range(n):
        H.ensure('act:integer-valued', H.is_integer(qs[i]))
        H.ensure('act:in-unsigned-range', H.and_(H.ge(qs[i], 0), H.le(qs[i], top)))
        H.ensure('act:non-positive-maps-to-zero', H.implies(H.le(xs[i], 0), H.and_(H.eq(qs[i], 0), H.eq(fs[i], 0))))
        H.ensure('act:truncates-inside-clipping-range',
                 H.implies(H.and_(H.ge(xs[i], 0), H.le(xs[i], cv)), H.and_(H.le(fs[i], xs[i]), H.lt(H.sub(xs[i], fs[i]), step))))
        H.ensure('act:fake-quantized-equals-integer-times-reported-scale', H.eq(fs[i], H.mul(qs[i], sc)))
        for j in range(n):
            if j != i:
                H.ensure('act:monotone', H.implies(H.le(xs[i], xs[j]), H.and_(H.le(qs[i], qs[j]), H.le(fs[i], fs[j]))))
                H.ensure('act:one-common-top-level', H.implies(H.and_(H.ge(xs[i], cv), H.ge(xs[j], cv)), H.eq(qs[i], qs[j])))
    H.ensure('act:scale-positive', H.gt(sc, 0))


def h_bias(H, C):
    x = H.tensor('b', (C,))
    x2 = H.tensor('b2', (C,))
    s_a = H.tensor('s_a', ())
    s_w = H.tensor('s_w', (C,))
    H.assume(H.and_(H.ge(s_a, 0), H.ge(s_w, 0)))
    q = QuantizerBias(32, C)
    q.dequantize = True
    fq = q(x, s_a, s_w)
    q.dequantize = False
    qi = q(x, s_a, s_w)
    qi2 = q(x2, s_a, s_w)
    sc = q.scale
    H.observe('fq', fq)
    H.observe('int', qi)
    xs, x2s, fs, qs, q2s, scs, sws = H.elements(x), H.elements(x2), H.elements(fq), H.elements(qi), H.elements(qi2), H.elements(sc), H.elements(s_w)
    for c in range(C):
        s = H.mul(H.scalar(s_a), sws[c])
        H.ensure('bias:reported-scale-is-input-scale-times-weight-scale', H.eq(scs[c], s))
        H.ensure('bias:integer-valued', H.is_integer(qs[c]))
        H.ensure('bias:fake-quantized-equals-integer-times-scale', H.eq(fs[c], H.mul(qs[c], s)))
        H.ensure('bias:zero-where-scale-is-zero', H.implies(H.le(s, 1e-8), H.and_(H.eq(qs[c], 0), H.eq(fs[c], 0))))
        H.ensure('bias:monotone', H.implies(H.le(xs[c], x2s[c]), H.le(qs[c], q2s[c])))
        H.ensure('bias:error-at-most-half-step', H.implies(H.gt(s, 1e-8), H.le(H.abs(H.sub(xs[c], fs[c])), H.div(s, 2))))


def h_bias_backward(H):
    g = H.tensor('g', (3,))
    o1 = QuantizeBiasSTE.backward(None, g)
    o2 = RoundSTE.backward(None, g)
    H.ensure('bias-backward:pass-through', H.and_(H.eq(o1[0], g), o1[1] is None, H.eq(o2, g)))


def h_dummy(H):
    x = H.tensor('x', (2, 2))
    q = DummyQuantizer(8)
    H.ensure('dummy:identity', H.eq(q(x), x))
    H.ensure('dummy:scale-one', H.eq(H.scalar(q.scale), 1))


PROPERTY = {
    'C13': dict(
        level='proof',
        explanation='element-wise post-conditions of the real quantizer kernels over all real inputs; precisions enumerated because of '
                    '2**precision; the clause "activation fake-quantized = integer x reported scale" is a known finding (PACTAct.scale '
                    'omits the 1e-3 stabiliser that forward uses)',
        not_decided=['float32 rounding (A-real): the statement\'s exhaustive float sweep is not replaced by anything',
                     'asymmetric weight quantization (outside the statement)'],
        assumptions=['small-model argument for tensor shapes (see module docstring): shapes (2,3) and (1,3,1,1) enumerated',
                     'weights / activations of ordinary magnitude: clip value in [0.05, 1000] as in the statement'],
    ),
}

_WB_Q, _WB_T = (0, 2, 4, 8), (0, 2, 3, 4, 5, 6, 7, 8)
_AB_Q, _AB_T = (2, 4, 8), (2, 3, 4, 5, 6, 7, 8)
_QF = 'plinio/methods/mps/quant/quantizers/'
HARNESSES = [
    dict(name='weight', fn='h_weight', property='C13',
         functions=[_QF + 'minmax_weight.py::MinMaxWeight.__init__', _QF + 'minmax_weight.py::MinMaxWeight.forward',
                    _QF + 'minmax_weight.py::MinMaxWeight.scale', _QF + 'minmax_weight.py::MinMaxWeight._compute_min_max_sym',
                    _QF + 'minmax_weight.py::MinMaxSymSTE.forward', _QF + 'minmax_weight.py::_min_max_quantize',
                    _QF + 'quantizer.py::Quantizer.__init__'],
         quick=[dict(p=p, rank=r) for p in _WB_Q for r in (2, 4)], thorough=[dict(p=p, rank=r) for p in _WB_T for r in (2, 4)], timeout=60),
    dict(name='weight-backward', fn='h_weight_backward', property=['C13', 'C12'], functions=[_QF + 'minmax_weight.py::MinMaxSymSTE.backward'],
         quick=[{}], thorough=[{}]),
    dict(name='act', fn='h_act', property='C13',
         functions=[_QF + 'pact_act.py::PACTAct.__init__', _QF + 'pact_act.py::PACTAct.forward', _QF + 'pact_act.py::PACTAct.scale',
                    _QF + 'pact_act.py::PACTActSTE.forward'],
         quick=[dict(p=p) for p in _AB_Q], thorough=[dict(p=p) for p in _AB_T], timeout=60),
    dict(name='bias', fn='h_bias', property='C13',
         functions=[_QF + 'qtz_bias.py::QuantizerBias.__init__', _QF + 'qtz_bias.py::QuantizerBias.forward', _QF + 'qtz_bias.py::QuantizerBias.scale',
                    _QF + 'qtz_bias.py::QuantizeBiasSTE.forward', _QF + 'qtz_bias.py::RoundSTE.forward'],
         quick=[dict(C=1), dict(C=2)], thorough=[dict(C=1), dict(C=2), dict(C=3)], timeout=60),
    dict(name='bias-backward', fn='h_bias_backward', property=['C13', 'C12'],
         functions=[_QF + 'qtz_bias.py::QuantizeBiasSTE.backward', _QF + 'qtz_bias.py::RoundSTE.backward'], quick=[{}], thorough=[{}]),
    dict(name='dummy', fn='h_dummy', property='C13', functions=[_QF + 'dummy.py::DummyQuantizer.forward', _QF + 'dummy.py::DummyQuantizer.scale'],
         quick=[{}], thorough=[{}]),
]
