"""C07 - importing a model is behaviour-preserving and leaves the user model intact (per layer).

Functions under contract: plinio/methods/pit/graph.py remove_bn_inplace; plinio/methods/mps/graph.py fuse_bn_inplace; __init__ and
forward of PITConv1d / PITConv2d / PITLinear with all masks at their initial (open) value; the tails of PIT.__init__ / MPS.__init__
(mode restoration, contracts/wrappers.py h_pit_mode).
rsqrt is an uninterpreted positive function of (running_var + eps): both sides use the same term, so the folding identity is exact.
"""
import torch
import torch.nn as nn
from plinio.methods.pit.graph import remove_bn_inplace
from plinio.methods.mps.graph import fuse_bn_inplace
from plinio.methods.pit.nn.conv1d import PITConv1d
from plinio.methods.pit.nn.conv2d import PITConv2d
from plinio.methods.pit.nn.linear import PITLinear
from plinio.methods.pit.nn.features_masker import PITFeaturesMasker
from plinio.methods.pit.nn.timestep_masker import PITTimestepMasker
from plinio.methods.pit.nn.dilation_masker import PITDilationMasker
from plinio.graph.features_calculation import ConstFeaturesCalculator


def _orig(H, kind, bias, affine):
    if kind == 'conv1d':
        lin = nn.Conv1d(2, 2, 2, bias=bias)
        bn = nn.BatchNorm1d(2, affine=affine)
        x = H.tensor('x', (1, 2, 3))
    elif kind == 'conv2d':
        lin = nn.Conv2d(2, 2, 1, bias=bias)
        bn = nn.BatchNorm2d(2, affine=affine)
        x = H.tensor('x', (1, 2, 1, 2))
    else:
        lin = nn.Linear(2, 2, bias=bias)
        bn = nn.BatchNorm1d(2, affine=affine)
        x = H.tensor('x', (1, 2))
    w = H.tensor('weight', H.shape(lin.weight))
    H.set_(lin.weight, w)
    b = None
    if bias:
        b = H.tensor('bias', (2,))
        H.set_(lin.bias, b)
    stats = {}
    if affine:
        stats['weight'] = H.tensor('bn.weight', (2,))
        stats['bias'] = H.tensor('bn.bias', (2,))
        H.set_(bn.weight, stats['weight'])
        H.set_(bn.bias, stats['bias'])
    stats['mean'] = H.tensor('bn.mean', (2,))
    stats['var'] = H.tensor('bn.var', (2,))
    H.assume(H.ge(stats['var'], 0))
    H.set_(bn.running_mean, stats['mean'])
    H.set_(bn.running_var, stats['var'])
    lin.eval()
    bn.eval()
    return lin, bn, x, w, b, stats


def _wrap(kind, lin, fold):
    if kind == 'conv1d':
        layer = PITConv1d(lin, PITFeaturesMasker(2), PITTimestepMasker(2), PITDilationMasker(2), fold_bn=fold)
    elif kind == 'conv2d':
        layer = PITConv2d(lin, PITFeaturesMasker(2), fold_bn=fold)
    else:
        layer = PITLinear(lin, PITFeaturesMasker(2), fold_bn=fold)
    layer.input_features_calculator = ConstFeaturesCalculator(2)
    return layer


def h_pit_import(H, kind, bias, affine, fold):
    lin, bn, x, w, b, stats = _orig(H, kind, bias, affine)
    y0 = bn(lin(x))
    layer = _wrap(kind, lin, fold)
    H.ensure('import:weights-and-bias-copied', H.eq(layer.weight, w) and (not bias or H.eq(layer.bias, b)) and (bias or layer.bias is None))
    H.ensure('import:copies-are-new-tensors', not H.same_object(layer.weight, lin.weight))
    for name in ('stride', 'padding', 'dilation', 'groups', 'kernel_size') if kind != 'linear' else ('in_features', 'out_features'):
        H.ensure('import:hyper-parameters-kept', getattr(layer, name) == getattr(lin, name))
    remove_bn_inplace(layer, bn, fold)
    layer.eval()
    y1 = layer(x)
    H.observe('y0', y0)
    H.observe('y1', y1)
    H.ensure('import:wrapped-layer-with-open-masks-computes-the-original-function', H.eq(y0, y1))
    # the user's objects are left intact
    H.ensure('import:user-layer-unchanged', H.eq(lin.weight, w) and (not bias or H.eq(lin.bias, b)))
    H.ensure('import:user-batchnorm-unchanged',
             H.eq(bn.running_mean, stats['mean']) and H.eq(bn.running_var, stats['var']) and (not affine or (H.eq(bn.weight, stats['weight']) and H.eq(bn.bias, stats['bias']))))
    H.ensure('import:batchnorm-is-deep-copied-into-the-layer', layer.bn is not None and not H.same_object(layer.bn, bn))
    # exporting immediately gives back the original sizes
    H.ensure('import:open-masks-keep-the-original-width', layer.out_features_opt == 2 and layer.in_features_opt == 2)
    if kind == 'conv1d':
        H.ensure('import:open-masks-keep-kernel-and-dilation', layer.kernel_size_opt[0] == 2 and layer.dilation_opt[0] == 1)


def h_mps_fold(H, kind, bias, affine):
    lin, bn, x, w, b, stats = _orig(H, kind, bias, affine)
    y0 = bn(lin(x))
    fuse_bn_inplace(lin, bn)
    y1 = lin(x)
    H.observe('y0', y0)
    H.observe('y1', y1)
    H.ensure('fold:folded-layer-computes-batchnorm-of-the-original-layer', H.eq(y0, y1))
    H.ensure('fold:batchnorm-unchanged', H.eq(bn.running_mean, stats['mean']) and H.eq(bn.running_var, stats['var']))


def h_fold_rejects(H, which):
    lin, bn = nn.Conv2d(2, 2, 1), nn.BatchNorm2d(2, track_running_stats=False)
    raised = False
    try:
        if which == 'pit':
            layer = PITConv2d(lin, PITFeaturesMasker(2))
            remove_bn_inplace(layer, bn, True)
        else:
            fuse_bn_inplace(lin, bn)
    except AttributeError:
        raised = True
    H.ensure('fold:rejects-batchnorm-without-running-statistics', raised)


PROPERTY = {
    'C07': dict(
        level='other',
        explanation='per layer: BatchNorm fusing/folding algebra (all four bias / affine combinations), weight copy, open-mask forward identity, user '
                    'objects untouched, train/eval mode restored by the constructors (convert() under an assumed contract)',
        not_decided=['whole-model statements over ALL architectures: PIT / SuperNet / MPS constructors run from source (tracing, fusion, mode handling) only on the enumerated '
                     'architectures of contracts/whole_pit.py, whole_supernet.py, whole_mps.py (bounded in topology)', 'multi-input forward, autoconvert off with user-placed layers'],
        trusted=['torch.rsqrt as an uninterpreted positive function; BatchNorm inference formula in pyvc/torchlib.py'],
        assumptions=['eval mode (running statistics) for the function comparison, as in the statement'],
    ),
}

_B = (True, False)
HARNESSES = [
    dict(name='pit-import', fn='h_pit_import', property=['C07'],
         functions=['plinio/methods/pit/graph.py::remove_bn_inplace', 'plinio/methods/pit/nn/conv1d.py::PITConv1d.__init__', 'plinio/methods/pit/nn/conv2d.py::PITConv2d.__init__',
                    'plinio/methods/pit/nn/linear.py::PITLinear.__init__', 'plinio/methods/pit/nn/conv1d.py::PITConv1d.forward', 'plinio/methods/pit/nn/conv2d.py::PITConv2d.forward',
                    'plinio/methods/pit/nn/linear.py::PITLinear.forward'],
         quick=[dict(kind=k, bias=b, affine=a, fold=f) for k in ('conv1d', 'conv2d', 'linear') for b in _B for a in _B for f in _B],
         thorough=[dict(kind=k, bias=b, affine=a, fold=f) for k in ('conv1d', 'conv2d', 'linear') for b in _B for a in _B for f in _B], timeout=60),
    dict(name='mps-fold', fn='h_mps_fold', property=['C07'], functions=['plinio/methods/mps/graph.py::fuse_bn_inplace'],
         quick=[dict(kind=k, bias=b, affine=a) for k in ('conv2d', 'linear') for b in _B for a in _B],
         thorough=[dict(kind=k, bias=b, affine=a) for k in ('conv2d', 'linear') for b in _B for a in _B]),
    dict(name='fold-rejects', fn='h_fold_rejects', property=['C07'], functions=['plinio/methods/pit/graph.py::remove_bn_inplace', 'plinio/methods/mps/graph.py::fuse_bn_inplace'],
         quick=[dict(which='pit'), dict(which='mps')], thorough=[dict(which='pit'), dict(which='mps')]),
]
