"""C19 - regularizers are non-negative penalties that vanish when the constraints hold.

Functions under contract: plinio/regularizers/base_regularizer.py  BaseRegularizer.__init__/__call__;
plinio/regularizers/duccio.py  DUCCIO.__init__/__call__.
`model.get_cost(name)` is an arbitrary real per name (a stub model returning symbolic scalars); hypothesis: the model does
not change between the get_cost calls inside one regularizer call.
"""
import torch
from plinio.regularizers.base_regularizer import BaseRegularizer
from plinio.regularizers.duccio import DUCCIO


class StubModel:
    def __init__(self, costs):
        self.costs = costs

    def get_cost(self, name):
        return self.costs[name]


_ORDERS = {'user': ['params', 'ops', 'latency', 'energy'],      # the order a user writes them in (not sorted in any direction): strength i belongs to the
           'sorted': ['a_metric', 'b_metric', 'c_metric', 'd_metric'],    # i-th key of the dictionary AS GIVEN
           'reversed': ['size', 'ops', 'latency', 'energy']}


def _names(n, order='user'):
    return _ORDERS[order][:n]


def h_base(H):
    c = H.tensor('cost', ())
    s = H.real('strength')
    reg = BaseRegularizer('params', s)
    r = reg(StubModel({'params': c}))
    H.observe('r', r)
    H.ensure('base:result-is-strength-times-cost', H.eq(H.scalar(r), H.mul(H.scalar(c), s)))
    reg2 = BaseRegularizer()
    r2 = reg2(StubModel({'params': c, 'ops': c * 2}))
    H.ensure('base:defaults-params-1e-3', H.eq(H.scalar(r2), H.mul(H.scalar(c), 0.001)))


def h_ctor(H, n, m, with_loss, with_strengths):
    """constructor: raises exactly in the three documented argument combinations"""
    targets = {name: torch.tensor(1.0) for name in _names(n)}
    fs = tuple(torch.tensor(1.0) for _ in range(m)) if with_strengths else None
    tl = torch.tensor(0.5) if with_loss else None
    raised = False
    try:
        DUCCIO(targets, task_loss=tl, final_strengths=fs)
    except ValueError:
        raised = True
    expect = (with_strengths and n != m) or (not with_loss and not with_strengths) or (with_loss and with_strengths)
    H.ensure('duccio-init:raises-exactly-on-bad-arguments', raised == expect)


def _setup(H, n, suffix='', order='user'):
    names = _names(n, order)
    costs = {nm: H.tensor('cost%s_%d' % (suffix, i), ()) for i, nm in enumerate(names)}
    targets = {nm: H.tensor('target_%d' % i, ()) for i, nm in enumerate(names)}
    return names, costs, targets


def h_given_strengths(H, n, order='user'):
    """positive final strengths given; epoch >= 0, n_epochs >= 1 arbitrary integers"""
    names, costs, targets = _setup(H, n, '', order)
    strengths = tuple(H.tensor('strength_%d' % i, ()) for i in range(n))
    epoch, n_epochs = H.int('epoch'), H.int('n_epochs')
    H.assume(H.and_(epoch >= 0, n_epochs >= 1))
    for s in strengths:
        H.assume(H.gt(H.scalar(s), 0))
    reg = DUCCIO(targets, final_strengths=strengths)
    r = reg(StubModel(costs), epoch, n_epochs)
    H.observe('r', r)
    rv = H.scalar(r)
    within = H.and_(*[H.le(H.scalar(costs[nm]), H.scalar(targets[nm])) for nm in names])
    H.ensure('duccio:non-negative', H.ge(rv, 0))
    H.ensure('duccio:zero-when-all-within-target', H.implies(within, H.eq(rv, 0)))
    H.ensure('duccio:positive-when-some-cost-exceeds-target', H.implies(H.not_(within), H.gt(rv, 0)))
    # every excess contributes at least 1% of its final strength and at most the full final strength
    lo = H.sum([H.mul(H.div(H.scalar(strengths[i]), 100), H.max(0, H.sub(H.scalar(costs[nm]), H.scalar(targets[nm]))))
                for i, nm in enumerate(names)])
    hi = H.sum([H.mul(H.scalar(strengths[i]), H.max(0, H.sub(H.scalar(costs[nm]), H.scalar(targets[nm]))))
                for i, nm in enumerate(names)])
    H.ensure('duccio:between-1pct-and-full-strength-hinge', H.and_(H.ge(rv, lo), H.le(rv, hi)))
    H.ensure('duccio:full-strength-from-half-schedule',
             H.implies(2 * epoch >= n_epochs, H.eq(rv, hi)))
    H.ensure('duccio:one-percent-at-epoch-0', H.implies(epoch == 0, H.eq(rv, lo)))
    # the regularizer must not modify what it was given
    H.ensure('duccio:strengths-unchanged', H.and_(*[H.same_object(a, b) for a, b in zip(reg.final_strengths, strengths)]))


def h_monotone_cost(H, n):
    """relational: raising costs never lowers the penalty; raising a cost that is above target strictly raises it"""
    names, costs, targets = _setup(H, n)
    _, costs2, _ = _setup(H, n, 'B')
    strengths = tuple(H.tensor('strength_%d' % i, ()) for i in range(n))
    epoch, n_epochs = H.int('epoch'), H.int('n_epochs')
    H.assume(H.and_(epoch >= 0, n_epochs >= 1))
    for s in strengths:
        H.assume(H.gt(H.scalar(s), 0))
    for nm in names:
        H.assume(H.le(H.scalar(costs[nm]), H.scalar(costs2[nm])))
    reg = DUCCIO(targets, final_strengths=strengths)
    r1 = H.scalar(reg(StubModel(costs), epoch, n_epochs))
    r2 = H.scalar(reg(StubModel(costs2), epoch, n_epochs))
    H.ensure('duccio:monotone-in-each-cost', H.le(r1, r2))
    strictly = H.or_(*[H.and_(H.lt(H.scalar(costs[nm]), H.scalar(costs2[nm])), H.gt(H.scalar(costs2[nm]), H.scalar(targets[nm])))
                       for nm in names])
    H.ensure('duccio:grows-with-each-excess', H.implies(strictly, H.lt(r1, r2)))


def h_schedule(H, n_epochs):
    """effective strength as a function of the epoch (one metric with excess 1, so the result IS the effective strength)"""
    s = H.tensor('strength', ())
    H.assume(H.gt(H.scalar(s), 0))
    e1, e2 = H.int('epoch1'), H.int('epoch2')
    H.assume(H.and_(0 <= e1, e1 <= e2))
    reg = DUCCIO({'m': torch.tensor(0.0)}, final_strengths=(s,))
    model = StubModel({'m': torch.tensor(1.0)})
    f1 = H.scalar(reg(model, e1, n_epochs))
    f2 = H.scalar(reg(model, e2, n_epochs))
    sv = H.scalar(s)
    H.observe('f1', f1)
    H.ensure('schedule:monotone-in-epoch', H.le(f1, f2))
    H.ensure('schedule:never-exceeds-final-strength', H.le(f2, sv))
    H.ensure('schedule:starts-at-1-percent', H.implies(e1 == 0, H.eq(f1, H.div(sv, 100))))
    H.ensure('schedule:final-strength-at-half-schedule', H.implies(2 * e1 >= n_epochs, H.eq(f1, sv)))
    H.ensure('schedule:below-final-strength-before-half', H.implies(2 * e2 < n_epochs, H.lt(f2, sv)))
    H.ensure('schedule:linear-ramp', H.implies(2 * e1 <= n_epochs,
                                               H.eq(f1, H.add(H.div(sv, 100), H.div(H.mul(H.mul(sv, 99), 2 * e1), 100 * n_epochs)))))


def h_default_epoch(H):
    """default call regularizer(model): epoch=1, n_epochs=1 -> full strength"""
    s = H.tensor('strength', ())
    c = H.tensor('cost', ())
    H.assume(H.gt(H.scalar(s), 0))
    reg = DUCCIO({'m': torch.tensor(2.0)}, final_strengths=(s,))
    r = H.scalar(reg(StubModel({'m': c})))
    H.ensure('duccio:default-call-uses-full-strength', H.eq(r, H.mul(H.scalar(s), H.max(0, H.sub(H.scalar(c), 2)))))


def h_derived_strengths(H, n):
    """final strengths lazily derived from task_loss: defined (no division by zero -> inf/NaN), non-negative, and the very first
    value equals task_loss x (number of metrics above target) from half schedule on"""
    names, costs, targets = _setup(H, n)
    tl = H.tensor('task_loss', ())
    H.assume(H.gt(H.scalar(tl), 0))
    epoch, n_epochs = H.int('epoch'), H.int('n_epochs')
    H.assume(H.and_(epoch >= 0, n_epochs >= 1))
    reg = DUCCIO(targets, task_loss=tl)
    r = reg(StubModel(costs), epoch, n_epochs)
    H.observe('r', r)
    rv = H.scalar(r)
    H.ensure('duccio-derived:non-negative', H.ge(rv, 0))
    above = H.count([H.gt(H.scalar(costs[nm]), H.scalar(targets[nm])) for nm in names])
    H.ensure('duccio-derived:zero-iff-all-within-target', H.iff(above == 0, H.eq(rv, 0)))
    H.ensure('duccio-derived:balances-task-loss-at-full-strength',
             H.implies(2 * epoch >= n_epochs, H.eq(rv, H.mul(H.scalar(tl), above))))
    H.ensure('duccio-derived:strengths-non-negative', H.and_(*[H.ge(H.scalar(s), 0) for s in reg.final_strengths]))
    # second call re-uses the stored strengths (lazy initialisation happens once)
    fs = reg.final_strengths
    reg(StubModel(costs), epoch, n_epochs)
    H.ensure('duccio-derived:strengths-initialised-once', H.same_object(fs, reg.final_strengths))


PROPERTY = {
    'C19': dict(
        level='proof',
        explanation='post-conditions of the real BaseRegularizer.__call__ and DUCCIO.__init__/__call__ over all real costs, targets, '
                    'strengths and all integer schedule positions.  Non-negativity and "zero exactly when every cost is within target" are proved for '
                    'ANY number of metrics through a loop invariant on the accumulation loop (mode B: targets / strengths are sequences of symbolic '
                    'length); the quantitative clauses (bounds, monotonicity in each excess, schedule shape, derived strengths) unroll the loop for '
                    '1..3(4) metrics; n_epochs is enumerated only for the non-linear schedule clauses',
        not_decided=['float32 rounding (A-real)', 'quantitative clauses for more metrics than enumerated (each metric contributes an independent summand)'],
        assumptions=['model.get_cost(name) returns the same value when called twice within one regularizer call'],
    ),
}

HARNESSES = [
    dict(name='base', fn='h_base', property='C19',
         functions=['plinio/regularizers/base_regularizer.py::BaseRegularizer.__init__', 'plinio/regularizers/base_regularizer.py::BaseRegularizer.__call__'],
         quick=[{}], thorough=[{}]),
    dict(name='duccio-ctor', fn='h_ctor', property='C19', functions=['plinio/regularizers/duccio.py::DUCCIO.__init__'],
         quick=[dict(n=n, m=m, with_loss=a, with_strengths=b) for n in (1, 2) for m in (1, 2) for a in (True, False) for b in (True, False)],
         thorough=[dict(n=n, m=m, with_loss=a, with_strengths=b) for n in (1, 2, 3) for m in (1, 2, 3) for a in (True, False) for b in (True, False)]),
    dict(name='duccio-given-strengths', fn='h_given_strengths', property='C19',
         functions=['plinio/regularizers/duccio.py::DUCCIO.__init__', 'plinio/regularizers/duccio.py::DUCCIO.__call__'],
         quick=[dict(n=n) for n in (1, 2, 3)] + [dict(n=3, order=o) for o in ('sorted', 'reversed')],
         thorough=[dict(n=n, order=o) for n in (1, 2, 3, 4) for o in ('user', 'sorted', 'reversed')]),
    dict(name='duccio-monotone', fn='h_monotone_cost', property='C19', functions=['plinio/regularizers/duccio.py::DUCCIO.__call__'],
         quick=[dict(n=n) for n in (1, 2)], thorough=[dict(n=n) for n in (1, 2, 3)]),
    dict(name='duccio-schedule', fn='h_schedule', property='C19', functions=['plinio/regularizers/duccio.py::DUCCIO.__call__'],
         quick=[dict(n_epochs=k) for k in (1, 2, 3, 4, 5, 6, 7, 10, 25, 50)], thorough=[dict(n_epochs=k) for k in range(1, 51)]),
    dict(name='duccio-default-epoch', fn='h_default_epoch', property='C19', functions=['plinio/regularizers/duccio.py::DUCCIO.__call__'],
         quick=[{}], thorough=[{}]),
    dict(name='duccio-derived-strengths', fn='h_derived_strengths', property='C19', functions=['plinio/regularizers/duccio.py::DUCCIO.__call__'],
         quick=[dict(n=n) for n in (1, 2, 3)], thorough=[dict(n=n) for n in (1, 2, 3)]),
]


# ----------------------------------------------------------------------------------------------------------------------
# mode B: ANY number of metrics - loop invariant on the accumulation loop of DUCCIO.__call__
# ----------------------------------------------------------------------------------------------------------------------
class SymTargets:
    """the `targets` dictionary as a sequence of symbolic length: items() yields (name_i, target_i)"""
    def __init__(self, seq):
        self.seq = seq

    def items(self):
        return self.seq

    def __len__(self):
        return len(self.seq)


class SymModel:
    def __init__(self, H):
        self.H = H

    def get_cost(self, name):
        return self.H.utensor('cost_of', self.H.ref_id(name))


def h_unbounded_metrics(H):
    n = H.int('n_metrics')
    epoch, n_epochs = H.int('epoch'), H.int('n_epochs')
    H.assume(H.and_(n >= 0, epoch >= 0, n_epochs >= 1))
    cost_of = lambda j: H.scalar(H.utensor('cost_of', j + 1))
    target_of = lambda j: H.scalar(H.utensor('target_of', j))
    strength_of = lambda j: H.scalar(H.utensor('strength_of', j))
    H.assume(H.forall_int(lambda j: strength_of(j) > 0))
    reg = H.bare_object(DUCCIO)
    reg.targets = SymTargets(H.sseq('targets', n, lambda i: (H.symref(i + 1), H.utensor('target_of', i))))      # metric i is named by the id i+1
    reg.final_strengths = H.sseq('strengths', n, lambda i: H.utensor('strength_of', i))
    reg.task_loss = None

    def within(hi):
        return H.forall_int(lambda j: H.implies(H.and_(0 <= j, j < hi), cost_of(j) <= target_of(j)))
    H.invariant('DUCCIO.__call__', 0,
                lambda env, i: H.and_(H.scalar(env.cost) >= 0, H.iff(H.scalar(env.cost) == 0, within(i))),
                {'cost': lambda: H.scalar_tensor(H.fresh_real('acc'))})
    r = H.scalar(reg(SymModel(H), epoch, n_epochs))
    H.ensure('duccio-unbounded:non-negative', r >= 0)
    H.ensure('duccio-unbounded:zero-exactly-when-every-cost-is-within-target', H.iff(r == 0, within(n)))


HARNESSES = HARNESSES + [
    dict(name='duccio-unbounded-metrics', fn='h_unbounded_metrics', property='C19', native=False, crosscheck=0,
         functions=['plinio/regularizers/duccio.py::DUCCIO.__call__'], quick=[{}], thorough=[{}], timeout=60),
]
