"""Whole-model MPS clauses on ENUMERATED small architectures with the complete conversion pipeline under contract
(serves C02, C05, C11 - bounded: architectures enumerated, weights and inputs CONCRETE, selection coefficients symbolic).

Functions under contract (repository source, nothing patched): plinio/methods/mps/mps.py MPS.__init__ / export / summary / get_cost /
named_nas_parameters / named_net_parameters; plinio/methods/mps/graph.py convert and every pass it calls (MPSTracer.is_leaf_module,
build_shared_mps_qtz_map, convert_layers, autoimport_node, export_node, add_input_quantizer, fuse_mps_modules, register_in_mps_quantizers, ...);
plinio/graph/annotation.py, inspection.py, transformation.py; autoimport / export / forward of the MPS layers.
Assumed library contracts: torch.fx tracing / GraphModule / ShapeProp (pyvc/fxtrace.py), compared with the real torch.fx on every run.

Why the values are concrete here: a whole-model forward through the MPS quantizers with symbolic weights forks on every data-dependent
mask and does not terminate within any reasonable budget (measured: > 600 s for a 3-layer model).  The value-level clauses of C02 / C05
are discharged for all real weights and inputs per layer (contracts/mps_layers.py); this module adds what the per-layer contracts
cannot see - the WIRING decided by the graph passes - for every value of the selection coefficients (ties included).
"""
import torch
import torch.nn as nn
from plinio.methods.mps.mps import MPS, get_default_qinfo
from plinio.methods.mps.nn.qtz import MPSType
from plinio.methods.mps.nn.module import MPSModule
from plinio.cost import params_bit


class Chain(nn.Module):
    """conv -> bn -> relu -> conv -> relu -> flatten -> linear"""
    def __init__(self):
        super().__init__()
        self.c0 = nn.Conv2d(1, 2, 1)
        self.bn = nn.BatchNorm2d(2)
        self.act = nn.ReLU()
        self.c1 = nn.Conv2d(2, 2, 1)
        self.fc = nn.Linear(2, 2)

    def forward(self, x):
        y = self.act(self.bn(self.c0(x)))
        y = self.act(self.c1(y))
        return self.fc(y.flatten(1))


class Residual(nn.Module):
    """the two addends of a sum must be quantized alike: their producers share the output quantizer"""
    def __init__(self):
        super().__init__()
        self.c0 = nn.Conv2d(1, 2, 1)
        self.c1 = nn.Conv2d(2, 2, 1)
        self.fc = nn.Linear(2, 2)

    def forward(self, x):
        a = self.c0(x)
        b = self.c1(a)
        return self.fc((a + b).flatten(1))


class Residual1d(nn.Module):
    """the residual topology with 1-d convolutions (the two addends share the output quantizer AND, with the default sharing, the weight quantizer object)"""
    def __init__(self):
        super().__init__()
        self.c0 = nn.Conv1d(1, 2, 1)
        self.c1 = nn.Conv1d(2, 2, 1)
        self.fc = nn.Linear(2, 2)

    def forward(self, x):
        a = self.c0(x)
        b = self.c1(a)
        return self.fc((a + b).flatten(1))


class DepthwiseFirst(nn.Module):
    """the first layer is a depthwise convolution"""
    def __init__(self):
        super().__init__()
        self.c0 = nn.Conv2d(2, 2, 1, groups=2)
        self.c1 = nn.Conv2d(2, 2, 1)
        self.fc = nn.Linear(2, 2)

    def forward(self, x):
        return self.fc(self.c1(self.c0(x)).flatten(1))


class DepthwiseMiddle(nn.Module):
    """a depthwise convolution between two convolutions"""
    def __init__(self):
        super().__init__()
        self.c0 = nn.Conv2d(1, 2, 1)
        self.dw = nn.Conv2d(2, 2, 1, groups=2)
        self.fc = nn.Linear(2, 2)

    def forward(self, x):
        return self.fc(self.dw(self.c0(x)).flatten(1))


NETS = {'chain': (Chain, {'c0': 'x_input_quantizer', 'c1': 'c0', 'fc': 'c1'}),
        'residual': (Residual, {'c0': 'x_input_quantizer', 'c1': 'c0'}),
        'residual1d': (Residual1d, {'c0': 'x_input_quantizer', 'c1': 'c0'}),
        'depthwise-first': (DepthwiseFirst, {'c0': 'x_input_quantizer', 'c1': 'c0', 'fc': 'c1'}),
        'depthwise-middle': (DepthwiseMiddle, {'c0': 'x_input_quantizer', 'dw': 'c0', 'fc': 'dw'})}
SHAPES = {'depthwise-first': (1, 2, 1, 1), 'residual1d': (1, 1, 1)}
SHAPE = (1, 1, 1, 1)


def _concrete_weights(H, net):
    k = 1
    for n, p in net.named_parameters():
        vals = []
        for i in range(p.numel()):
            vals.append(((k * 37) % 17 - 8) / 8.0)
            k += 1
        H.set_(p, H.const_tensor(vals).reshape(H.shape(p)))


def _first_max(H, vals):
    for i in range(len(vals)):
        c = H.and_(*([H.gt(vals[i], v) for v in vals[:i]] + [H.ge(vals[i], v) for v in vals[i + 1:]]))
        if H.branch(c):
            return i
    H.assume(False)


def h_mps_whole(H, net, training):
    cls, feeds = NETS[net]
    user = cls()
    _concrete_weights(H, user)
    user.train(training)
    flags = [m.training for m in user.modules()]
    shape = SHAPES.get(net, SHAPE)
    model = MPS(user, input_example=torch.zeros(*shape), qinfo=get_default_qinfo((2, 8), (4, 8)))
    H.observe('nodes', [(n.op, str(n.target) if n.op != 'call_function' else n.name, n.name, [a.name for a in n.all_input_nodes]) for n in model.seed.graph.nodes])
    H.observe('modules', [(n, H.type_name(m)) for n, m in model.seed.named_modules() if 'qtz_funcs' not in n])
    H.ensure('import:wrapper-keeps-the-training-mode-it-found', all(m.training == training for m in model.modules()))
    H.ensure('import:user-model-keeps-its-training-mode', [m.training for m in user.modules()] == flags)
    layers = dict(model.seed.named_modules())
    # C02 wiring: the input quantizer of a layer IS the output quantizer chosen for the tensor it consumes
    for name, prod in feeds.items():
        H.ensure('[C02] wiring:input-quantizer-of-a-layer-is-the-output-quantizer-of-its-producer',
                 H.same_object(layers[name].in_mps_quantizer, layers[prod].out_mps_quantizer))
    # C11: architectural and network parameters partition the parameters of the model
    nas = [p for _, p in model.named_nas_parameters()]
    netp = [p for _, p in model.named_net_parameters()]
    allp = [p for _, p in model.named_parameters()]
    H.ensure('partition:every-parameter-is-architectural-or-network-exactly-once',
             len(nas) + len(netp) == len(allp) and all(sum(1 for q in nas + netp if H.same_object(p, q)) == 1 for p in allp))
    # every selection coefficient is an arbitrary real (ties included); one path per combination of winners
    sel = {}
    for n, p in model.named_nas_parameters():
        if not n.endswith('alpha'):
            continue                           # the quantizers' own parameters (clip values) keep their initial value
        a = H.tensor('alpha.' + n, H.shape(p))
        H.set_(p, a)
        sel[n] = _first_max(H, H.elements(a))
    model.eval()
    x = H.const_tensor([[[[0.75]]]]) if shape[1] == 1 else H.const_tensor([[[[0.75]], [[0.375]]]])
    if len(shape) == 3:
        x = H.const_tensor([[[0.75]]])
    y_nas = model(x)
    summ = model.summary()
    cost = H.scalar(model.get_cost())
    exported = model.export()
    exported.eval()
    y_exp = exported(x)
    H.observe('y_nas', y_nas)
    H.observe('summary', [(k, v.get('w_precision'), v.get('in_precision'), v.get('out_precision')) for k, v in summ.items()])
    H.ensure('export:exported-network-computes-the-eval-mode-function', H.eq(y_nas, y_exp))
    # ... on further inputs (the values are concrete here: one input can sit in the middle of a quantization cell and hide a shifted bias or scale)
    for scale in (0.13, 0.31, 0.52, 0.97):
        xs = x * scale
        H.ensure('[C02] export:exported-network-computes-the-eval-mode-function-on-further-inputs', H.eq(model(xs), exported(xs)))
    model(x)
    # C05: the weight-size metric is the exact size of the reported assignment
    exact = 0
    for name, v in summ.items():
        if v.get('w_precision') is not None:
            exact = exact + layers[name].weight.numel() * v['w_precision']
    H.observe('cost', cost)
    H.ensure('cost:weight-size-is-exact-for-the-reported-assignment', H.eq(cost, exact))
    # C02: consecutive layers agree on the precision of the tensor between them
    for name, prod in feeds.items():
        if prod in summ:
            H.ensure('[C02] summary:input-precision-of-a-layer-is-the-output-precision-of-its-producer', summ[name]['in_precision'] == summ[prod]['out_precision'])
    H.ensure('export:model-output-unchanged-by-export', H.eq(model(x), y_nas))
    if training:
        # C18 in the middle of a search: training mode, coefficients sampled by the last training forward (soft); export() must leave
        # what the next cost read sees exactly as it was
        model.train()
        for m in model.seed.modules():
            if hasattr(m, 'sample_alpha') and hasattr(m, 'theta_alpha'):
                m.sample_alpha()               # what the training forward does to the sampled coefficients (soft in training mode)
        c_before = H.scalar(model.get_cost())
        # the read-only reports of the wrapper (alpha_summary / theta_alpha_summary / str) between the cost reads
        a_s = model.alpha_summary()
        t_s = model.theta_alpha_summary()
        model.__str__()
        H.ensure('[C18] observers:coefficient-reports-list-the-layers-summary-lists', sorted(a_s.keys()) == sorted(summ.keys()) and sorted(t_s.keys()) == sorted(summ.keys()))
        H.ensure('[C18] observers:cost-unchanged-by-the-coefficient-reports', H.eq(H.scalar(model.get_cost()), c_before))
        H.ensure('[C18] observers:training-mode-kept-by-the-coefficient-reports', all(m.training for m in model.modules()))
        model.export()
        H.ensure('[C18] export:cost-read-after-export-in-training-mode-equals-the-cost-before', H.eq(H.scalar(model.get_cost()), c_before))
        H.ensure('[C18] export:training-mode-kept', all(m.training for m in model.modules()))
        # ... and the sequence training forward (soft coefficients) -> eval() -> export() without a forward pass in between: the cost read before the next
        # forward pass is still the one of the coefficients the last forward pass sampled
        model.eval()
        c_eval = H.scalar(model.get_cost())
        H.ensure('[C18] export:eval-after-training-forward-reads-the-sampled-coefficients', H.eq(c_eval, c_before))
        model.export()
        H.ensure('[C18] export:cost-read-after-export-in-eval-mode-equals-the-cost-before', H.eq(H.scalar(model.get_cost()), c_eval))
        H.ensure('[C18] export:eval-mode-kept', all(not m.training for m in model.modules()))


def h_mps_per_channel(H, net):
    """C05, last clause, at model level: with the per-channel search and the 0-bit option, the channels a producer prunes are exactly the
    input features its consumers are charged for (wiring of the features calculators by the MPS graph passes), whatever the consumer type"""
    cls, feeds = NETS[net]
    user = cls()
    _concrete_weights(H, user)
    shape = SHAPES.get(net, SHAPE)
    model = MPS(user, input_example=torch.zeros(*shape), w_search_type=MPSType.PER_CHANNEL, qinfo=get_default_qinfo((0, 8), (8,)))
    layers = dict(model.seed.named_modules())
    alive = {}
    for n, p in model.named_nas_parameters():
        if not n.endswith('alpha') or len(H.shape(p)) != 2:
            continue
        a = H.tensor('alpha.' + n, H.shape(p))
        H.set_(p, a)
        lname = n.replace('seed.', '', 1).split('.w_mps_quantizer')[0]
        keep = []
        for c in range(H.shape(p)[1]):
            # precision 0 is alternative 0: the channel is pruned iff its 0-bit coefficient is the (first) largest
            # (the last layer is not offered the 0-bit alternative: a single row)
            pruned = H.shape(p)[0] > 1 and H.branch(H.ge(H.scalar(a[0, c]), H.scalar(a[1, c])))
            keep.append(0.0 if pruned else 1.0)
        alive[lname] = keep
    model.eval()
    x = H.const_tensor([[[[0.75]]]]) if shape[1] == 1 else H.const_tensor([[[[0.75]], [[0.375]]]])
    model(x)
    for name, prod in feeds.items():
        if prod not in alive:
            continue
        calc = layers[name].input_features_calculator
        H.ensure('[C05,C09] wiring:consumer-is-charged-for-the-alive-channels-of-its-producer', H.eq(H.scalar(calc.features), sum(alive[prod])))
    H.observe('alive', alive)
    # C05, weight-size metric at model level: when no channel is pruned every weight is stored at the only non-zero precision (8 bit) - the cost is the exact
    # size of that assignment, with each layer priced by the model of ITS kind (a depthwise layer has k x k x C weights, not k x k x C x C)
    if all(all(k == 1.0 for k in keep) for keep in alive.values()):
        exact = 0
        for name, m in layers.items():
            if isinstance(m, MPSModule) and hasattr(m, 'w_mps_quantizer'):
                exact = exact + m.weight.numel() * 8
        H.ensure('[C05] cost:weight-size-is-exact-when-no-channel-is-pruned', H.eq(H.scalar(model.get_cost()), exact))


PROPERTY = {}

_B = (True, False)
_P = 'plinio/methods/mps/'
_FUNCS = [_P + 'mps.py::MPS.__init__', _P + 'mps.py::MPS.export', _P + 'mps.py::MPS.summary', _P + 'graph.py::convert', _P + 'graph.py::MPSTracer.is_leaf_module',
          _P + 'graph.py::build_shared_mps_qtz_map', _P + 'graph.py::convert_layers', _P + 'graph.py::autoimport_node', _P + 'graph.py::export_node',
          _P + 'graph.py::add_input_quantizer', _P + 'graph.py::fuse_mps_modules', _P + 'graph.py::register_in_mps_quantizers']
HARNESSES = [
    dict(name='whole-mps-per-channel', bounded='enumerated architectures (contracts/whole_mps.py NETS); selection coefficients symbolic, weights and input CONCRETE', fn='h_mps_per_channel', property=['C05', 'C09'], functions=_FUNCS,
         quick=[dict(net='chain'), dict(net='depthwise-middle')], thorough=[dict(net=n) for n in ('chain', 'residual', 'depthwise-middle')], timeout=120, crosscheck=2),
    dict(name='whole-mps', bounded='enumerated architectures (contracts/whole_mps.py NETS); selection coefficients symbolic, weights and input CONCRETE', fn='h_mps_whole', property=['C02', 'C05', 'C11', 'C07', 'C18'], functions=_FUNCS + [_P + 'mps.py::MPS.' + f for f in ('alpha_summary', 'theta_alpha_summary', 'nas_parameters_summary', '__str__')],
         quick=[dict(net='chain', training=True), dict(net='residual', training=False), dict(net='residual1d', training=False), dict(net='depthwise-first', training=False), dict(net='depthwise-middle', training=False)],
         thorough=[dict(net=n, training=t) for n in NETS for t in _B], timeout=120, crosscheck=2),
]
