"""C14 - the per-layer statement with SYMBOLIC weights, bias, clipping values and input (MATCH, one input / one output channel, 1x1): the for-all version of
contracts/c14.py layer-reproduces, affordable only with a short selection loop (scale_bit / shift_pos passed to the real constructor) and binary_search used through its
contract (proved in contracts/c14.py binary-search)."""
import torch
import torch.nn as nn
from plinio.methods.mps.quant.backends.match.nn.conv2d import MATCHConv2d
from plinio.methods.mps.quant.backends.match.nn.linear import MATCHLinear
from plinio.methods.mps.quant.nn.conv2d import QuantConv2d
from plinio.methods.mps.quant.nn.linear import QuantLinear
from plinio.methods.mps.quant.quantizers import PACTAct, MinMaxWeight, QuantizerBias, DummyQuantizer


def _bs_post(H, div, low, high, x, r):
    return H.and_(r >= low, r <= high, H.or_(r == high, x <= r * div), H.or_(r == low, (r - 1) * div < x))


def h_layer_reproduces_sym(H, kind, p_in, p_out, p_w, scale_bit, shift_pos, last):
    if kind == 'conv2d':
        lin = nn.Conv2d(1, 1, 1, bias=True)
    else:
        lin = nn.Linear(1, 1, bias=True)
    w = H.tensor('w', H.shape(lin.weight))
    b = H.tensor('b', (1,))
    w0, b0 = H.elements(w)[0], H.elements(b)[0]
    H.assume(H.and_(H.ge(H.abs(w0), 0.1), H.le(H.abs(w0), 10), H.le(H.abs(b0), 10)))         # ordinary magnitudes
    H.set_(lin.weight, w)
    H.set_(lin.bias, b)
    in_q = PACTAct(p_in, init_clip_val=1.0)
    out_q = DummyQuantizer(p_out) if last else PACTAct(p_out, init_clip_val=2.0)
    w_q = MinMaxWeight(p_w, 1)
    b_q = QuantizerBias(32, 1)
    fq_layer = (QuantConv2d if kind == 'conv2d' else QuantLinear)(lin, in_q, out_q, w_q, b_q)
    fq_layer.eval()
    x_int = H.itensor('x', (1, 1, 1, 1) if kind == 'conv2d' else (1, 1))
    H.assume(H.and_(H.elements(x_int)[0] >= 0, H.elements(x_int)[0] <= 2 ** p_in - 1))
    x_int = x_int * 1.0
    s_x = in_q.scale
    y_fq = fq_layer(x_int * s_x)
    if H.symbolic:
        def contract(d, lo, hi, xx):
            r = H.fresh_int('bs_result')
            H.assume(_bs_post(H, d, lo, hi, xx, r))
            return r
        H.patch('plinio.methods.mps.quant.backends.match.nn.conv2d' if kind == 'conv2d' else 'plinio.methods.mps.quant.backends.match.nn.linear', 'binary_search', contract)
    cls = MATCHConv2d if kind == 'conv2d' else MATCHLinear
    layer = cls(lin, in_q, out_q, w_q, b_q, scale_bit=scale_bit, shift_pos=shift_pos)
    y_int = layer(x_int)
    H.observe('y_int', y_int)
    H.observe('y_fq', y_fq)
    yi, yq = H.elements(y_int)[0], H.elements(y_fq)[0]
    sc = H.elements(layer.scale)[0]
    sh = H.scalar(layer.shift.flatten()[0])
    s_w = H.elements(layer.s_w)[0]
    wi = H.elements(layer.weight)[0]
    H.ensure('sym:stored-weight-is-an-integer-in-the-signed-range', H.and_(H.is_integer(wi), H.ge(wi, -(2 ** (p_w - 1))), H.le(wi, 2 ** (p_w - 1) - 1)))
    if last:
        H.ensure('sym:last-layer-output-times-scales-is-the-logits', H.eq(H.mul(H.mul(yi, H.scalar(s_x)), s_w), yq))
        return
    s_y = H.scalar(out_q.scale)
    H.ensure('sym:output-is-an-integer-in-the-unsigned-activation-range', H.and_(H.is_integer(yi), H.ge(yi, 0), H.le(yi, 2 ** p_out - 1)))
    int_bias = H.div(H.elements(layer.add_bias)[0], sc)
    acc = H.add(H.mul(wi, H.elements(x_int)[0]), int_bias)
    target = H.div(H.mul(s_w, H.scalar(s_x)), s_y)
    approx = H.div(sc, 2 ** H.concretize(sh))
    err = H.mul(H.abs(acc), H.abs(H.sub(target, approx)))
    H.ensure('sym:integer-image-of-the-fake-quantized-output-within-one-level-plus-approximation-bound',
             H.le(H.abs(H.sub(yi, H.div(yq, s_y))), H.add(1 + 1e-6, err)))      # 1e-6: scale constants are float64 values (1 / s_y * s_y is not exactly 1)


PROPERTY = {}
_BK = 'plinio/methods/mps/quant/backends/'
HARNESSES = [
    dict(name='layer-reproduces-symbolic', fn='h_layer_reproduces_sym', property=['C14'],
         functions=[_BK + 'match/nn/conv2d.py::MATCHConv2d.__init__', _BK + 'match/nn/conv2d.py::MATCHConv2d.forward', _BK + 'match/nn/linear.py::MATCHLinear.__init__',
                    _BK + 'match/nn/linear.py::MATCHLinear.forward'],
         quick=[dict(kind=k, p_in=2, p_out=2, p_w=2, scale_bit=4, shift_pos=2, last=l) for k in ('conv2d', 'linear') for l in (False, True)] + [dict(kind='conv2d', p_in=4, p_out=8, p_w=4, scale_bit=8, shift_pos=3, last=False)],
         thorough=[dict(kind=k, p_in=pi, p_out=po, p_w=pw, scale_bit=sb, shift_pos=sp, last=l) for k in ('conv2d', 'linear') for l in (False, True)
                   for (pi, po, pw) in ((2, 2, 2), (4, 8, 4), (8, 8, 8), (8, 4, 2)) for (sb, sp) in ((4, 2), (8, 3), (8, 4))],
         timeout=300, crosscheck=2),
]
