"""C03 - SuperNet export keeps exactly the arg-max branch of every choice block (bounded in topology).

Functions under contract: plinio/methods/supernet/graph.py export_graph, link_combiners_to_branches; plinio/graph/inspection.py
is_layer / layer_type / uniquify_leaf_modules; supernet/nn/combiner.py SuperNetCombiner.best_layer_index / forward / set_sn_branch.
The torch.fx graph is built node by node (H.fx_graph) with the sub-module names a traced SuperNetModule has
(`<block>.sn_branches.<i>[.<j>]`, `<block>.sn_combiner`); the graph mutators used by export_graph (replace_all_uses_with, erase_node,
eliminate_dead_code, delete_all_unused_submodules) are assumed library contracts (pyvc/torchlib.py), compared with the real torch.fx on
every run by the cross-check.  Selection coefficients, every weight and the input are symbolic; the topologies are ENUMERATED
(this is a bounded stand-in in the topology dimension: 1..3 choice blocks of 2..3 and 12 branches made of one layer, a two-layer
sequence or an identity, a block invoked twice) - not a proof over all networks.  How a SuperNetModule appears in a traced graph is an
assumption HERE; contracts/whole_supernet.py removes it by tracing real SuperNetModule networks through the tracer contract.
"""
import torch
import torch.nn as nn
from plinio.methods.supernet.graph import export_graph, link_combiners_to_branches
from plinio.methods.supernet.nn.combiner import SuperNetCombiner


class TM:
    def __init__(self, shape):
        self.shape = shape


def _branch(H, spec, mods, blk, i, k, src, suffix, cin, make):
    """appends the nodes of branch i (kind k) of block `blk` fed by node `src`; returns (output node name, [sub-module names])"""
    base = '%s.sn_branches.%d' % (blk, i)
    tm = {'tensor_meta': TM((1, cin, 2))}
    if k == 'seq':
        if make:
            m0 = nn.Conv1d(cin, cin, 1)
            H.set_(m0.weight, H.tensor('%s.b%d.w' % (blk, i), (cin, cin, 1)))
            H.set_(m0.bias, H.tensor('%s.b%d.b' % (blk, i), (cin,)))
            mods[base + '.0'], mods[base + '.1'] = m0, nn.ReLU()
        spec.append((base + '.0' + suffix, 'call_module', [src], tm))
        spec.append((base + '.1' + suffix, 'call_module', [base + '.0' + suffix], tm))
        return base + '.1' + suffix, [base + '.0', base + '.1']
    if make:
        if k == 'layer':
            m = nn.Conv1d(cin, cin, 1)
            H.set_(m.weight, H.tensor('%s.b%d.w' % (blk, i), (cin, cin, 1)))
            H.set_(m.bias, H.tensor('%s.b%d.b' % (blk, i), (cin,)))
        else:
            m = nn.Identity()
        mods[base] = m
    spec.append((base + suffix, 'call_module', [src], tm))
    return base + suffix, [base]


def _graph(H, blocks, twice):
    """x -> block0 [-> block0 again] -> block1 ... -> head -> out ; each block = list of branch kinds 'layer' | 'seq' | 'identity'.
    Node and sub-module names are the ones a traced SuperNetModule has."""
    cin = 2
    mods = {}
    spec = [('x', 'placeholder', [], {'tensor_meta': TM((1, cin, 2))})]
    combs, branch_mods, list_args = [], [], []
    src = 'x'
    for b, kinds in enumerate(blocks):
        blk = 'blk%d' % b
        comb = SuperNetCombiner(len(kinds), False, True)
        mods[blk + '.sn_combiner'] = comb
        combs.append(comb)
        for suffix in (['', '@2'] if (twice and b == 0) else ['']):
            outs, bm = [], []
            for i, k in enumerate(kinds):
                o, names = _branch(H, spec, mods, blk, i, k, src, suffix, cin, suffix == '')
                outs.append(o)
                bm.append(names)
            spec.append((blk + '.sn_combiner' + suffix, 'call_module', outs, {'tensor_meta': TM((1, cin, 2))}))
            list_args.append(blk + '.sn_combiner' + suffix)
            src = blk + '.sn_combiner' + suffix
        branch_mods.append(bm)
    head = nn.Conv1d(cin, 1, 1)
    H.set_(head.weight, H.tensor('head.w', (1, cin, 1)))
    H.set_(head.bias, H.tensor('head.b', (1,)))
    mods['head'] = head
    spec.append(('head', 'call_module', [src], {'tensor_meta': TM((1, 1, 2))}))
    spec.append(('out', 'output', ['head'], {'tensor_meta': TM((1, 1, 2))}))
    gm, nodes = H.fx_graph(spec, mods, list_args)
    return gm, nodes, combs, head, branch_mods, mods


def h_export(H, blocks, twice=False):
    gm, nodes, combs, head, branch_mods, mods = _graph(H, blocks, twice)
    als = []
    for b, comb in enumerate(combs):
        n = len(blocks[b])
        alpha = H.tensor('alpha%d' % b, (n,))
        al = H.elements(alpha)
        for i in range(n):
            for j in range(i):
                H.assume(H.ne(al[i], al[j]))
        H.set_(comb.alpha, alpha)
        als.append(al)
    for m in mods.values():
        m.eval()
    x = H.tensor('x', (1, 2, 2))
    # case split on the winner of every block first (one path per combination of winners)
    kept = ['head']
    for b, al in enumerate(als):
        for i in range(len(al)):
            is_max = H.and_(*[H.ge(al[i], a) for a in al])
            if H.branch(is_max):
                kept = kept + branch_mods[b][i]
    y_hard = H.fx_run(gm, x)                    # SuperNet with hard (one-hot) selection
    head_w = H.elements(head.weight)
    link_combiners_to_branches(gm)
    for b, comb in enumerate(combs):
        for i in range(len(blocks[b])):
            H.ensure('link:combiner-knows-the-layers-of-each-branch', [e[0] for e in comb._unique_leaf_modules[i]] == branch_mods[b][i])
    export_graph(gm)
    names = H.fx_module_names(gm)
    y_exp = H.fx_run(gm, x)
    H.observe('y_hard', y_hard)
    H.observe('y_exp', y_exp)
    H.ensure('export:same-function-as-hard-selection', H.eq(y_exp, y_hard))
    H.ensure('export:exactly-the-arg-max-branch-and-the-fixed-layers-remain', names == sorted(kept))
    H.ensure('export:combiner-is-gone', not any('sn_combiner' in nm for nm in names))
    H.ensure('export:layers-outside-choice-blocks-untouched',
             H.same_object(dict(H.fx_modules(gm))['head'], head) and H.eq(H.elements(head.weight), head_w))


PROPERTY = {
    'C03': dict(
        level='other',
        explanation='the real export_graph / link_combiners_to_branches are executed on torch.fx graphs of ENUMERATED small topologies (1..3 choice blocks of 2..3 and 12 '
                    'branches: single layer, two-layer sequence, identity; a block invoked twice; whole SuperNet(model).export() on three traced architectures with BatchNorm, in both modes) with symbolic selection coefficients, weights and inputs: exported graph == hard-selection '
                    'graph on every input, exactly the arg-max branch and the fixed layers remain, the combiner is gone, outside layers untouched.  This is a '
                    'bounded stand-in in the topology dimension, never counted as a proof over all SuperNets.',
        not_decided=['all networks with 1..3 blocks of 2..12 branches: topologies are enumerated, not quantified',
                     'user-defined multi-layer blocks: two kinds only (ending in F.relu, ending in a residual add) - the defect they exposed is fixed (/repo 3b40840)',
                     'in the graph-level harness (export-graph) how a SuperNetModule appears in the traced graph is an assumption; the whole-model harness (contracts/whole_supernet.py) traces real '
                     'SuperNetModule networks through the tracer contract of pyvc/fxtrace.py'],
        trusted=['torch.fx graph mutators as specified in pyvc/torchlib.py (FxGraph / FxNode / FxGraphModule) and symbolic tracing / GraphModule / ShapeProp as specified in pyvc/fxtrace.py, '
                 'validated against the real torch.fx by the cross-check on every run (traced node lists, module tables, annotations are observations)'],
        assumptions=['no ties among the selection coefficients'],
    ),
}

# a block with 12 alternatives: two-digit branch indices (`sn_branches.1` is a prefix of `sn_branches.10`, `.11`)
_MANY = ['layer', 'identity', 'seq', 'layer', 'identity', 'layer', 'layer', 'identity', 'layer', 'seq', 'layer', 'identity']

HARNESSES = [
    dict(name='export-graph', bounded='enumerated topologies (1..3 blocks, 2..3 and 12 branches, a block invoked twice); values symbolic', fn='h_export', property=['C03'],
         functions=['plinio/methods/supernet/graph.py::export_graph', 'plinio/methods/supernet/graph.py::link_combiners_to_branches',
                    'plinio/methods/supernet/nn/combiner.py::SuperNetCombiner.best_layer_index', 'plinio/methods/supernet/nn/combiner.py::SuperNetCombiner.forward',
                    'plinio/graph/inspection.py::is_layer', 'plinio/graph/inspection.py::layer_type'],
         quick=[dict(blocks=[k]) for k in (['layer', 'layer'], ['layer', 'seq'], ['seq', 'identity'], ['layer', 'seq', 'identity'], _MANY)] +
               [dict(blocks=[['layer', 'seq', 'identity']], twice=True), dict(blocks=[['layer', 'identity'], ['seq', 'layer']])],
         thorough=[dict(blocks=[k]) for k in (['layer', 'layer'], ['layer', 'seq'], ['seq', 'layer'], ['seq', 'identity'], ['identity', 'layer'], ['layer', 'seq', 'identity'],
                                              ['seq', 'seq', 'layer'], ['layer', 'layer', 'layer'], _MANY)] +
                  [dict(blocks=[k], twice=True) for k in (['layer', 'seq', 'identity'], ['seq', 'layer'], _MANY)] +
                  [dict(blocks=[a, b]) for a in (['layer', 'identity'], ['seq', 'layer', 'identity']) for b in (['seq', 'layer'], ['identity', 'seq'])] +
                  [dict(blocks=[['layer', 'identity'], ['seq', 'layer'], ['identity', 'layer']], twice=True)], timeout=60),
]
