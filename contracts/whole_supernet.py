"""Whole-model SuperNet clauses on ENUMERATED small architectures with the complete conversion pipeline under contract
(serves C03, C07, C18 - bounded in topology, never counted as a proof over all SuperNets).

Functions under contract (repository source, nothing patched): plinio/methods/supernet/supernet.py SuperNet.__init__ / export / forward;
plinio/methods/supernet/graph.py convert, SuperNetTracer.is_leaf_module, link_combiners_to_branches, export_graph;
plinio/graph/annotation.py clean_up_propagated_shapes; plinio/graph/inspection.py named_leaf_modules / uniquify_leaf_modules / is_layer;
supernet/nn/module.py SuperNetModule; supernet/nn/combiner.py SuperNetCombiner.
Assumed library contracts: torch.fx tracing / GraphModule / ShapeProp (pyvc/fxtrace.py), BatchNorm in both modes - all compared with the
real torch on every run by the cross-check.  Selection coefficients, weights, BatchNorm statistics and the input are symbolic.
"""
import torch
import torch.nn as nn
import torch.nn.functional as F
from plinio.methods.supernet.supernet import SuperNet
from plinio.methods.supernet.nn.module import SuperNetModule
from plinio.cost import params, ops


class OneBlock(nn.Module):
    """bn -> choice(conv | conv+relu | identity) -> head"""
    def __init__(self):
        super().__init__()
        self.bn = nn.BatchNorm1d(2)
        self.blk = SuperNetModule([nn.Conv1d(2, 2, 1), nn.Sequential(nn.Conv1d(2, 2, 1), nn.ReLU()), nn.Identity()], hard_softmax=True)
        self.head = nn.Conv1d(2, 1, 1)

    def forward(self, x):
        return self.head(self.blk(self.bn(x)))


class Twice(nn.Module):
    """the same choice block invoked twice in one forward pass, with a BatchNorm inside a branch"""
    def __init__(self):
        super().__init__()
        self.blk = SuperNetModule([nn.Sequential(nn.Conv1d(2, 2, 1), nn.BatchNorm1d(2)), nn.Identity()], hard_softmax=True)
        self.head = nn.Conv1d(2, 1, 1)

    def forward(self, x):
        return self.head(self.blk(self.blk(x)))


class TwoBlocks(nn.Module):
    """two choice blocks in series and a residual connection around the second"""
    def __init__(self):
        super().__init__()
        self.a = SuperNetModule([nn.Conv1d(2, 2, 1), nn.Identity()], hard_softmax=True)
        self.b = SuperNetModule([nn.Sequential(nn.Conv1d(2, 2, 1), nn.ReLU()), nn.Conv1d(2, 2, 1)], hard_softmax=True)
        self.head = nn.Conv1d(2, 1, 1)

    def forward(self, x):
        y = self.a(x)
        return self.head(self.b(y) + y)


class ReluBlock(nn.Module):
    """a user-defined block whose last traced node is a function"""
    def __init__(self):
        super().__init__()
        self.c = nn.Conv1d(2, 2, 1)

    def forward(self, x):
        return F.relu(self.c(x))


class ResBlock(nn.Module):
    """a user-defined residual block: its traced form ends with an addition"""
    def __init__(self):
        super().__init__()
        self.c = nn.Conv1d(2, 2, 1)

    def forward(self, x):
        return self.c(x) + x


class UserBlocks(nn.Module):
    """choice among a plain layer and two user-defined multi-op blocks"""
    def __init__(self):
        super().__init__()
        self.blk = SuperNetModule([nn.Conv1d(2, 2, 1), ReluBlock(), ResBlock()], hard_softmax=True)
        self.head = nn.Conv1d(2, 1, 1)

    def forward(self, x):
        return self.head(self.blk(x))


NETS = {'user-blocks': (UserBlocks, ['blk']), 'one-block': (OneBlock, ['blk']), 'twice': (Twice, ['blk']), 'two-blocks': (TwoBlocks, ['a', 'b'])}
SHAPE = (2, 2, 2)


def _symbolic_state(H, net):
    vals = {}
    for n, p in net.named_parameters():
        if n.endswith('alpha'):
            continue
        t = H.tensor('w.' + n, H.shape(p))
        H.set_(p, t)
        vals[n] = H.elements(t)
    for n, m in net.named_modules():
        if H.type_name(m) == 'BatchNorm1d':
            rm, rv = H.tensor('bn.' + n + '.mean', H.shape(m.running_mean)), H.tensor('bn.' + n + '.var', H.shape(m.running_var))
            H.assume(H.ge(rv, 0))
            H.set_(m.running_mean, rm)
            H.set_(m.running_var, rv)
            vals[n + '.running_mean'], vals[n + '.running_var'] = H.elements(rm), H.elements(rv)
    return vals


def _alphas(H, user, blocks):
    als = []
    for b in blocks:
        comb = getattr(user, b).sn_combiner
        n = comb.n_branches
        a = H.tensor('alpha.' + b, (n,))
        al = H.elements(a)
        for i in range(n):
            for j in range(i):
                H.assume(H.ne(al[i], al[j]))
        H.set_(comb.alpha, a)
        als.append(al)
    return als


def _state_now(user):
    return dict(list(user.named_parameters()) + list(user.named_buffers()))


def h_import(H, net, training):
    """C07: SuperNet(model) computes the function of `model` and does not alter the parameters / statistics / outputs of the user's model"""
    cls, blocks = NETS[net]
    user = cls()
    vals = _symbolic_state(H, user)
    _alphas(H, user, blocks)
    x = H.tensor('x', SHAPE)
    user.eval()
    y0 = user(x)
    user.train(training)
    model = SuperNet(user, input_example=torch.zeros(*SHAPE))
    H.observe('nodes', [(n.op, str(n.target) if n.op != 'call_function' else n.name, n.name, [a.name for a in n.all_input_nodes]) for n in model.seed.graph.nodes])
    H.observe('leaf', [e[0] for e in model._leaf_modules])
    now = _state_now(user)
    H.ensure('import:user-parameters-and-statistics-untouched', all(H.eq(H.elements(now[k]), v) for k, v in vals.items()))
    model.eval()
    y1 = model(x)
    user.eval()
    y2 = user(x)
    H.observe('y0', y0)
    H.ensure('import:wrapped-model-computes-the-original-function', H.eq(y0, y1))
    H.ensure('import:user-model-still-computes-the-original-function', H.eq(y0, y2))


def _metric_on(H, exported, per_invocation):
    """parameter count (once per layer) / operation count (once per invocation, x output length) of a plain exported network"""
    tot = 0
    seen = []
    mods = dict(exported.named_modules())
    for n in exported.graph.nodes:
        if n.op != 'call_module':
            continue
        m = mods[str(n.target)]
        if H.type_name(m) != 'Conv1d' or (not per_invocation and str(n.target) in seen):
            continue
        seen.append(str(n.target))
        c = m.out_channels * (m.in_channels * m.kernel_size[0] + (1 if m.bias is not None else 0))
        tot = tot + (c * SHAPE[2] if per_invocation else c)
    return tot


def h_cost_vs_exported(H, net):
    """C06, last clause: under hard selection the cost of the SuperNet equals the same metric computed on the exported network
    (parameters: every layer once; operations: every invocation)"""
    cls, blocks = NETS[net]
    user = cls()
    als = _alphas(H, user, blocks)
    model = SuperNet(user, cost={'params': params, 'ops': ops}, input_example=torch.zeros(*SHAPE), full_cost=True)
    for al in als:
        for i in range(len(al)):
            if H.branch(H.and_(*[H.ge(al[i], a) for a in al])):
                break
    model.eval()
    model(H.tensor('x', SHAPE))                  # the forward pass that samples the (hard) coefficients
    c_params = H.scalar(model.get_cost('params'))
    c_ops = H.scalar(model.get_cost('ops'))
    exported = model.export()
    H.observe('costs', [c_params, c_ops])
    H.ensure('cost:parameters-under-hard-selection-equal-the-parameter-count-of-the-exported-network', H.eq(c_params, _metric_on(H, exported, False)))
    H.ensure('cost:operations-under-hard-selection-equal-the-operation-count-of-the-exported-network', H.eq(c_ops, _metric_on(H, exported, True)))


def _same(H, a, b):
    if isinstance(a, dict):
        return isinstance(b, dict) and sorted(a.keys()) == sorted(b.keys()) and all(_same(H, a[k], b[k]) for k in a)
    return H.eq(a, b)


def h_export(H, net, training):
    """C03 / C18: for every value of the selection coefficients export() keeps exactly the arg-max branch of every block, the exported network
    computes the hard-selection function of the SuperNet, layers outside the blocks are the same objects with the same state - whatever mode
    the SuperNet is in when export() is called"""
    cls, blocks = NETS[net]
    user = cls()
    vals = _symbolic_state(H, user)
    als = _alphas(H, user, blocks)
    model = SuperNet(user, input_example=torch.zeros(*SHAPE))
    x = H.tensor('x', SHAPE)
    winners = []
    for al in als:
        for i in range(len(al)):
            if H.branch(H.and_(*[H.ge(al[i], a) for a in al])):
                winners.append(i)
    model.eval()
    y_hard = model(x)                            # hard (one-hot) selection
    model.train(training)
    flags = [m.training for m in model.modules()]
    exported = model.export()
    H.ensure('export:training-mode-of-the-supernet-unchanged', [m.training for m in model.modules()] == flags)
    now = _state_now(user)
    H.ensure('export:parameters-and-statistics-untouched', all(H.eq(H.elements(now[k]), v) for k, v in vals.items()))
    exported.eval()
    y_exp = exported(x)
    H.observe('y_hard', y_hard)
    H.observe('y_exp', y_exp)
    H.ensure('export:same-function-as-hard-selection', H.eq(y_exp, y_hard))
    names = [n for n, m in exported.named_modules() if len(list(m.children())) == 0]
    expect = []
    for n, m in user.named_modules():
        if len(list(m.children())) > 0 or n == '':
            continue
        if 'sn_combiner' in n:
            continue
        if 'sn_branches' in n:
            b = n.split('.sn_branches.')[0]
            i = int(n.split('.sn_branches.')[1].split('.')[0])
            if winners[blocks.index(b)] != i:
                continue
        expect.append(n)
    H.observe('kept', names)
    H.ensure('export:exactly-the-arg-max-branches-and-the-fixed-layers-remain', sorted(names) == sorted(expect))
    H.ensure('export:layers-outside-choice-blocks-untouched', H.same_object(dict(exported.named_modules())['head'], user.head))
    # [C18] the whole-model observers of the wrapper, called after export() and in between each other: summary() twice, str(), get_total_icv()
    flags_o = [m.training for m in model.modules()]     # (exported.eval() above is the harness's own action on the layers export() shares)
    s1 = model.summary()
    model.__str__()                                   # (the text itself holds floats: not compared)
    model.get_total_icv()
    n_nas = len(list(model.named_nas_parameters()))
    n_net = len(list(model.named_net_parameters()))
    H.ensure('[C18] observers:parameter-listings-partition-the-parameters', n_nas + n_net == len(list(model.parameters())) and n_nas == len(blocks))
    s2 = model.summary()
    H.ensure('[C18] observers:summary-lists-exactly-the-choice-blocks', sorted(s1.keys()) == sorted(b + '.sn_combiner' for b in blocks))
    H.ensure('[C18] observers:repeated-summaries-agree', _same(H, s1, s2))
    H.ensure('[C18] observers:training-mode-of-the-supernet-unchanged', [m.training for m in model.modules()] == flags_o)
    now = _state_now(user)
    H.ensure('[C18] observers:parameters-and-statistics-untouched', all(H.eq(H.elements(now[k]), v) for k, v in vals.items()))
    model.eval()
    H.ensure('export:supernet-output-unchanged-by-export', H.eq(model(x), y_hard))


PROPERTY = {}

_B = (True, False)
_P = 'plinio/methods/supernet/'
_FUNCS = [_P + 'supernet.py::SuperNet.__init__', _P + 'supernet.py::SuperNet.export', _P + 'graph.py::convert', _P + 'graph.py::SuperNetTracer.is_leaf_module',
          _P + 'graph.py::link_combiners_to_branches', _P + 'graph.py::export_graph', _P + 'nn/module.py::SuperNetModule.forward',
          'plinio/graph/annotation.py::clean_up_propagated_shapes', 'plinio/graph/inspection.py::named_leaf_modules']
HARNESSES = [
    dict(name='whole-supernet-cost', bounded='enumerated architectures (contracts/whole_supernet.py NETS); coefficients, weights, statistics, inputs symbolic', fn='h_cost_vs_exported', property=['C06'], functions=_FUNCS + [_P + 'supernet.py::SuperNet._get_single_cost', _P + 'nn/combiner.py::SuperNetCombiner.get_cost'],
         quick=[dict(net=n) for n in NETS], thorough=[dict(net=n) for n in NETS], timeout=120),
    dict(name='whole-supernet-import', bounded='enumerated architectures (contracts/whole_supernet.py NETS); coefficients, weights, statistics, inputs symbolic', fn='h_import', property=['C07'], functions=_FUNCS,
         quick=[dict(net=n, training=t) for n, t in (('one-block', True), ('twice', True), ('two-blocks', False))],
         thorough=[dict(net=n, training=t) for n in NETS for t in _B], timeout=120),
    dict(name='whole-supernet-export', bounded='enumerated architectures (contracts/whole_supernet.py NETS); coefficients, weights, statistics, inputs symbolic', fn='h_export', property=['C03', 'C18'], functions=_FUNCS + [_P + 'supernet.py::SuperNet.summary', _P + 'supernet.py::SuperNet.__str__', _P + 'supernet.py::SuperNet.get_total_icv', _P + 'supernet.py::SuperNet.named_nas_parameters', _P + 'supernet.py::SuperNet.named_net_parameters', _P + 'nn/combiner.py::SuperNetCombiner.summary'],
         quick=[dict(net=n, training=t) for n, t in (('one-block', True), ('twice', True), ('two-blocks', False), ('one-block', False), ('user-blocks', False))],
         thorough=[dict(net=n, training=t) for n in NETS for t in _B], timeout=120),
]
