"""C10 - what is evaluated, what is reported and what is exported are the same choice.

Functions under contract: plinio/methods/mps/nn/qtz.py  MPSBaseQtz.__init__/sample_alpha_sm/sample_alpha_gs/sample_alpha_none/
update_softmax_options, MPSPerLayerQtz.__init__, MPSPerChannelQtz.__init__/features_mask; mps/nn/ste_argmax.py STEArgmax.forward/
backward; the selected_*_precision / selected_*_quantizer properties of MPSConv2d, MPSConv1d, MPSLinear, MPSIdentity;
supernet/nn/combiner.py  SuperNetCombiner.__init__/sample_alpha_sm/sample_alpha_gs/best_layer_index/summary/forward.

History quantifier: every sampler overwrites the sampled coefficients from the raw coefficients and the current options only
(sample_alpha_none keeps them), so "probability vector after __init__" + "every sampler maps ANY previous state to a probability
vector (one-hot under the stated conditions)" is an induction over all interleavings of option updates and forward passes.
Library contracts used: softmax (positive, sums to one, strictly order preserving for T>0), argmax (first maximal index), one_hot,
gumbel_softmax (probability vector, one-hot if hard, location unspecified).
"""
import torch
import torch.nn as nn
from plinio.methods.mps.nn.qtz import MPSPerLayerQtz, MPSPerChannelQtz, MPSBiasQtz
from plinio.methods.mps.nn.ste_argmax import STEArgmax
from plinio.methods.mps.nn.conv2d import MPSConv2d
from plinio.methods.mps.nn.conv1d import MPSConv1d
from plinio.methods.mps.nn.linear import MPSLinear
from plinio.methods.mps.nn.identity import MPSIdentity
from plinio.methods.mps.quant.quantizers import PACTAct, MinMaxWeight, QuantizerBias
from plinio.methods.supernet.nn.combiner import SuperNetCombiner

PRECS = {1: (8,), 2: (2, 8), 3: (8, 2, 4), 4: (0, 8, 2, 4)}


def _no_ties(H, vals):
    for i in range(len(vals)):
        for j in range(i):
            H.assume(H.ne(vals[i], vals[j]))


def _is_max(H, vals, i):
    return H.and_(*[H.ge(vals[i], v) for v in vals])


def _prob_vector(H, vals):
    return H.and_(H.eq(H.sum(vals), 1), *[H.ge(v, 0) for v in vals])


def _one_hot_at_argmax(H, theta, alpha):
    return H.and_(*[H.eq(theta[i], H.ite(_is_max(H, alpha, i), 1, 0)) for i in range(len(alpha))])


def _one_hot(H, theta):
    return H.and_(H.eq(H.sum(theta), 1), *[H.or_(H.eq(t, 0), H.eq(t, 1)) for t in theta])


def h_per_layer(H, n, training, hard, gumbel):
    """one sampling step of a per-layer quantizer from an arbitrary previous state"""
    q = MPSPerLayerQtz(PRECS[n], PACTAct, softmax_temperature=1.0, hard_softmax=hard, gumbel_softmax=gumbel)
    theta0 = [H.scalar(t) for t in H.elements(q.theta_alpha)]
    H.ensure('init:sampled-coefficients-are-a-probability-vector', _prob_vector(H, theta0))
    T = H.real('temperature')
    H.assume(H.and_(T >= 0.05, T <= 20))
    q.update_softmax_options(temperature=T)
    alpha = H.tensor('alpha', (n,))
    al = H.elements(alpha)
    _no_ties(H, al)
    H.set_(q.alpha, alpha)
    H.set_(q.theta_alpha, H.tensor('previous_theta', (n,)))          # arbitrary previous state (history)
    q.train(training)
    q.sample_alpha()
    th = H.elements(q.theta_alpha)
    H.observe('theta', q.theta_alpha)
    H.ensure('sample:probability-vector', _prob_vector(H, th))
    if (not training) or (hard and not gumbel):
        H.ensure('sample:one-hot-at-largest-raw-coefficient', _one_hot_at_argmax(H, th, al))
    if gumbel and training and hard:
        H.ensure('sample:gumbel-hard-is-one-hot', _one_hot(H, th))
    H.ensure('sample:quantizer-i-has-precision-i',
             H.and_(*[q.qtz_funcs[i].precision == PRECS[n][i] for i in range(n)]))


def h_per_layer_disabled(H, n, at_construction):
    """sampling disabled: the previously sampled coefficients are kept; disabling at construction must still leave a valid sample"""
    q = MPSPerLayerQtz(PRECS[n], PACTAct, disable_sampling=at_construction)
    if not at_construction:
        q.update_softmax_options(disable_sampling=True)
    th0 = H.elements(q.theta_alpha)
    H.ensure('disabled:coefficients-are-a-probability-vector', _prob_vector(H, th0))
    prev = H.tensor('previous_theta', (n,))
    H.set_(q.theta_alpha, prev)
    H.set_(q.alpha, H.tensor('alpha', (n,)))
    q.sample_alpha()
    H.ensure('disabled:sample-keeps-previous-coefficients', H.eq(q.theta_alpha, prev))


def h_per_channel(H, n, C, training, hard, gumbel):
    q = MPSPerChannelQtz(PRECS[n], MinMaxWeight, {'cout': C}, softmax_temperature=1.0, hard_softmax=hard, gumbel_softmax=gumbel)
    th0 = q.theta_alpha
    H.ensure('init:per-channel-probability-vectors',
             H.and_(*[_prob_vector(H, [H.scalar(th0[i, c]) for i in range(n)]) for c in range(C)]))
    T = H.real('temperature')
    H.assume(H.and_(T >= 0.05, T <= 20))
    q.update_softmax_options(temperature=T)
    alpha = H.tensor('alpha', (n, C))
    for c in range(C):
        _no_ties(H, [H.scalar(alpha[i, c]) for i in range(n)])
    H.set_(q.alpha, alpha)
    H.set_(q.theta_alpha, H.tensor('previous_theta', (n, C)))
    q.train(training)
    q.sample_alpha()
    th = q.theta_alpha
    H.observe('theta', th)
    H.ensure('sample:shape', H.shape(th) == (n, C))
    for c in range(C):
        col = [H.scalar(th[i, c]) for i in range(n)]
        acol = [H.scalar(alpha[i, c]) for i in range(n)]
        H.ensure('sample:per-channel-probability-vector', _prob_vector(H, col))
        if (not training) or (hard and not gumbel):
            H.ensure('sample:per-channel-one-hot-at-largest-raw-coefficient', _one_hot_at_argmax(H, col, acol))
        if gumbel and training and hard:
            H.ensure('sample:per-channel-gumbel-hard-is-one-hot', _one_hot(H, col))
    if PRECS[n][0] == 0:
        fm = q.features_mask
        for c in range(C):
            acol = [H.scalar(alpha[i, c]) for i in range(n)]
            col = [H.scalar(th[i, c]) for i in range(n)]
            # a channel is reported pruned exactly when the sampled winner of the channel is the 0-bit alternative
            H.ensure('features_mask:pruned-iff-sampled-winner-is-0-bit', H.eq(H.scalar(fm[c]), H.ite(_is_max(H, col, 0), 0, 1)))


def h_ste_argmax_backward(H):
    g = H.tensor('g', (3,))
    out = STEArgmax.backward(None, g)
    H.ensure('STEArgmax.backward:pass-through', H.and_(H.eq(out[0], g), out[1] is None))


def _mk_layer(kind, n_out, n_w, per_channel):
    out_q = MPSPerLayerQtz(PRECS[n_out], PACTAct)
    if kind == 'identity':
        return MPSIdentity(out_q), out_q, None
    cout = 2
    if per_channel:
        w_q = MPSPerChannelQtz(PRECS[n_w], MinMaxWeight, {'cout': cout})
    else:
        w_q = MPSPerLayerQtz(PRECS[n_w], MinMaxWeight, {'cout': cout})
    b_q = MPSBiasQtz(QuantizerBias, {'precision': 32, 'cout': cout})
    if kind == 'conv2d':
        return MPSConv2d(nn.Conv2d(1, cout, 1), out_q, w_q, b_q), out_q, w_q
    if kind == 'conv1d':
        return MPSConv1d(nn.Conv1d(1, cout, 1), out_q, w_q, b_q), out_q, w_q
    return MPSLinear(nn.Linear(1, cout), out_q, w_q, b_q), out_q, w_q


def h_selected(H, kind, n_out, n_w, per_channel):
    """summary()/export() read the choice through selected_*: it must be the alternative with the largest raw coefficient"""
    layer, out_q, w_q = _mk_layer(kind, n_out, n_w, per_channel)
    a_out = H.tensor('alpha_out', (n_out,))
    ao = H.elements(a_out)
    _no_ties(H, ao)
    H.set_(out_q.alpha, a_out)
    sel = layer.selected_out_precision
    selq = layer.selected_out_quantizer
    for i in range(n_out):
        H.ensure('selected_out_precision:is-argmax-alternative', H.implies(_is_max(H, ao, i), H.eq(sel, PRECS[n_out][i])))
        H.ensure('selected_out_quantizer:is-argmax-alternative',
                 H.implies(_is_max(H, ao, i), H.same_object(selq, out_q.qtz_funcs[i])))
    H.ensure('selected_out_quantizer:has-the-reported-precision', H.eq(selq.precision, sel))
    if w_q is None:
        return
    if not per_channel:
        a_w = H.tensor('alpha_w', (n_w,))
        aw = H.elements(a_w)
        _no_ties(H, aw)
        H.set_(w_q.alpha, a_w)
        selw = layer.selected_w_precision
        selwq = layer.selected_w_quantizer
        for i in range(n_w):
            H.ensure('selected_w_precision:is-argmax-alternative', H.implies(_is_max(H, aw, i), H.eq(selw, PRECS[n_w][i])))
            H.ensure('selected_w_quantizer:is-argmax-alternative', H.implies(_is_max(H, aw, i), H.same_object(selwq, w_q.qtz_funcs[i])))
    else:
        C = 2
        a_w = H.tensor('alpha_w', (n_w, C))
        for c in range(C):
            _no_ties(H, [H.scalar(a_w[i, c]) for i in range(n_w)])
        H.set_(w_q.alpha, a_w)
        selw = layer.selected_w_precision
        selwq = layer.selected_w_quantizer
        H.ensure('selected_w_precision:one-entry-per-channel', len(selw) == C and len(selwq) == C)
        for c in range(C):
            col = [H.scalar(a_w[i, c]) for i in range(n_w)]
            for i in range(n_w):
                H.ensure('selected_w_precision:per-channel-argmax-alternative', H.implies(_is_max(H, col, i), H.eq(selw[c], PRECS[n_w][i])))
                H.ensure('selected_w_quantizer:per-channel-argmax-alternative',
                         H.implies(_is_max(H, col, i), H.same_object(selwq[c], w_q.qtz_funcs[i])))
    # the input side reads the producer's output quantizer through the same rule
    if kind != 'identity':
        in_q = MPSPerLayerQtz(PRECS[n_out], PACTAct)
        layer.in_mps_quantizer = in_q
        a_in = H.tensor('alpha_in', (n_out,))
        ai = H.elements(a_in)
        _no_ties(H, ai)
        H.set_(in_q.alpha, a_in)
        seli = layer.selected_in_precision
        seliq = layer.selected_in_quantizer
        for i in range(n_out):
            H.ensure('selected_in_precision:is-argmax-alternative', H.implies(_is_max(H, ai, i), H.eq(seli, PRECS[n_out][i])))
            H.ensure('selected_in_quantizer:is-argmax-alternative', H.implies(_is_max(H, ai, i), H.same_object(seliq, in_q.qtz_funcs[i])))


def h_combiner(H, n, training, hard, gumbel):
    comb = SuperNetCombiner(n, gumbel, hard)
    th0 = H.elements(comb.theta_alpha)
    H.ensure('combiner-init:coefficients-are-a-probability-vector', _prob_vector(H, th0))
    T = H.real('temperature')
    H.assume(H.and_(T >= 0.05, T <= 20))
    comb.softmax_temperature = T
    alpha = H.tensor('alpha', (n,))
    al = H.elements(alpha)
    _no_ties(H, al)
    H.set_(comb.alpha, alpha)
    comb.theta_alpha = H.tensor('previous_theta', (n,))
    comb.train(training)
    comb.sample_alpha()
    th = H.elements(comb.theta_alpha)
    H.observe('theta', comb.theta_alpha)
    H.ensure('combiner-sample:probability-vector', _prob_vector(H, th))
    if (not training) or (hard and not gumbel):
        H.ensure('combiner-sample:one-hot-at-largest-raw-coefficient', _one_hot_at_argmax(H, th, al))
    if gumbel and training and hard:
        H.ensure('combiner-sample:gumbel-hard-is-one-hot', _one_hot(H, th))
    best = comb.best_layer_index()
    for i in range(n):
        H.ensure('best_layer_index:is-argmax-of-raw-coefficients', H.implies(_is_max(H, al, i), H.eq(best, i)))
    # forward = coefficient-weighted sum of the branch outputs (hard => the winner's output)
    ys = [H.tensor('y%d' % i, (2,)) for i in range(n)]
    if not (gumbel and training):
        out = comb(ys)
        th2 = H.elements(comb.theta_alpha)
        for e in range(2):
            H.ensure('combiner-forward:weighted-sum-of-branches',
                     H.eq(H.elements(out)[e], H.sum([H.mul(th2[i], H.elements(ys[i])[e]) for i in range(n)])))
        rep = comb.summary()['supernet_branches']
        H.ensure('combiner-summary:reports-the-sampled-coefficients',
                 H.and_(*[H.eq(rep['branch_%d' % i]['alpha'], th2[i]) for i in range(n)]))
        # the coefficients move (optimizer step, load_state_dict) and summary() is read before the next forward pass: it still
        # names the arg-max alternative of the CURRENT raw coefficients, the one export() materialises
        alpha2 = H.tensor('alpha_after_step', (n,))
        al2 = H.elements(alpha2)
        _no_ties(H, al2)
        H.set_(comb.alpha, alpha2)
        rep2 = comb.summary()['supernet_branches']
        for i in range(n):
            H.ensure('combiner-summary:largest-reported-coefficient-is-the-current-argmax',
                     H.implies(_is_max(H, al2, i), H.and_(*[H.gt(rep2['branch_%d' % i]['alpha'], rep2['branch_%d' % j]['alpha']) for j in range(n) if j != i])))
            H.ensure('combiner-summary:agrees-with-best_layer_index', H.implies(_is_max(H, al2, i), H.eq(comb.best_layer_index(), i)))


PROPERTY = {
    'C10': dict(
        level='proof',
        explanation='post-conditions of the real samplers / selectors for all real coefficient vectors without ties and all temperatures in '
                    '[0.05, 20], from an arbitrary previous state (induction over histories); vector lengths 1..4 and 1..2 channels '
                    'enumerated (the softmax / argmax contracts are pairwise, nothing couples more than two alternatives)',
        not_decided=['float32 saturation of softmax (ties created by rounding)', 'vector lengths beyond the enumerated ones',
                     'export() materialising the selected quantizers: decided per layer under C02'],
        trusted=['contracts of F.softmax / torch.argmax / F.one_hot / F.gumbel_softmax stated in pyvc/torchlib.py'],
        assumptions=['no ties among the raw coefficients of one decision (as in the statement)'],
    ),
}

_B = (True, False)
_modes = [dict(training=t, hard=h, gumbel=g) for t in _B for h in _B for g in _B]
_MN = 'plinio/methods/mps/nn/'
HARNESSES = [
    dict(name='per-layer', fn='h_per_layer', property='C10',
         functions=[_MN + 'qtz.py::MPSBaseQtz.__init__', _MN + 'qtz.py::MPSPerLayerQtz.__init__', _MN + 'qtz.py::MPSBaseQtz.sample_alpha_sm',
                    _MN + 'qtz.py::MPSBaseQtz.sample_alpha_gs', _MN + 'qtz.py::MPSBaseQtz.update_softmax_options',
                    _MN + 'ste_argmax.py::STEArgmax.forward'],
         quick=[dict(n=n, **m) for n in (1, 2, 3) for m in _modes], thorough=[dict(n=n, **m) for n in (1, 2, 3, 4) for m in _modes]),
    dict(name='per-layer-disabled', fn='h_per_layer_disabled', property='C10',
         functions=[_MN + 'qtz.py::MPSBaseQtz.sample_alpha_none', _MN + 'qtz.py::MPSBaseQtz.update_softmax_options'],
         quick=[dict(n=n, at_construction=a) for n in (1, 2, 3) for a in _B], thorough=[dict(n=n, at_construction=a) for n in (1, 2, 3, 4) for a in _B]),
    dict(name='per-channel', fn='h_per_channel', property='C10',
         functions=[_MN + 'qtz.py::MPSPerChannelQtz.__init__', _MN + 'qtz.py::MPSPerChannelQtz.features_mask', _MN + 'qtz.py::MPSBaseQtz.sample_alpha_sm',
                    _MN + 'qtz.py::MPSBaseQtz.sample_alpha_gs', _MN + 'ste_argmax.py::STEArgmax.forward'],
         quick=[dict(n=n, C=C, **m) for n in (2, 4) for C in (1, 2) for m in _modes],
         thorough=[dict(n=n, C=C, **m) for n in (1, 2, 3, 4) for C in (1, 2, 3) for m in _modes]),
    dict(name='ste-argmax-backward', fn='h_ste_argmax_backward', property=['C10', 'C12'], functions=[_MN + 'ste_argmax.py::STEArgmax.backward'],
         quick=[{}], thorough=[{}]),
    dict(name='selected', fn='h_selected', property='C10',
         functions=[_MN + f + '::' + c + '.' + p for f, c in (('conv2d.py', 'MPSConv2d'), ('conv1d.py', 'MPSConv1d'), ('linear.py', 'MPSLinear'))
                    for p in ('selected_in_precision', 'selected_out_precision', 'selected_w_precision', 'selected_in_quantizer',
                              'selected_out_quantizer', 'selected_w_quantizer')] +
                   [_MN + 'identity.py::MPSIdentity.selected_out_precision', _MN + 'identity.py::MPSIdentity.selected_out_quantizer'],
         quick=[dict(kind=k, n_out=3, n_w=n_w, per_channel=pc) for k in ('conv2d', 'conv1d', 'linear') for n_w, pc in ((3, False), (4, True))] +
               [dict(kind='identity', n_out=3, n_w=1, per_channel=False)],
         thorough=[dict(kind=k, n_out=no, n_w=n_w, per_channel=pc) for k in ('conv2d', 'conv1d', 'linear') for no in (2, 3)
                   for n_w, pc in ((2, False), (3, False), (4, False), (3, True), (4, True))] +
                  [dict(kind='identity', n_out=no, n_w=1, per_channel=False) for no in (1, 2, 3, 4)]),
    dict(name='combiner', fn='h_combiner', property='C10',
         functions=['plinio/methods/supernet/nn/combiner.py::SuperNetCombiner.' + f for f in
                    ('__init__', 'sample_alpha_sm', 'sample_alpha_gs', 'best_layer_index', 'summary', 'forward')],
         quick=[dict(n=n, **m) for n in (1, 2, 3) for m in _modes], thorough=[dict(n=n, **m) for n in (1, 2, 3, 4, 5) for m in _modes]),
]
