"""PIT searchable layers: contracts of masking, sizes, export and cost hyper-parameters (serves C01, C04, C08, C12).

Functions under contract (plinio/methods/pit/nn/): features_masker.py, timestep_masker.py, dilation_masker.py (constructors, theta,
_generate_keep_alive_mask, _generate_c_matrix, _gamma_len, plain and frozen variants); binarizer.py PITBinarizer.forward/backward;
conv1d.py / conv2d.py / linear.py: __init__, forward, export, summary, _features_mask, _time_mask, features_mask, time_mask,
out_features_opt, in_features_opt, kernel_size_opt, dilation_opt, out_features_eff, k_eff, get_modified_vars,
_generate_norm_constants, input_features_calculator; batchnorm_1d.py / batchnorm_2d.py export; plinio/graph/features_calculation.py
ModAttrFeaturesCalculator, ConstFeaturesCalculator, FlattenFeaturesCalculator.

The real constructors are executed, then every architectural parameter (alpha, beta, gamma), every weight, bias, BatchNorm
statistic and the input are replaced by arbitrary reals ("every value an optimizer can reach").  Each layer is exported inside a
minimal torch.fx graph (producer -> [causal pad] -> layer), H.fx_chain; the single-node bookkeeping of fx is an assumed contract.
Kernel sizes, initial dilations, strides, channel counts and sequence lengths are enumerated (listed in the evidence).
"""
import torch
import torch.nn as nn
from plinio.methods.pit.nn.conv1d import PITConv1d
from plinio.methods.pit.nn.conv2d import PITConv2d
from plinio.methods.pit.nn.linear import PITLinear
from plinio.methods.pit.nn.batchnorm_1d import PITBatchNorm1d
from plinio.methods.pit.nn.batchnorm_2d import PITBatchNorm2d
from plinio.methods.pit.nn.features_masker import PITFeaturesMasker, PITFrozenFeaturesMasker
from plinio.methods.pit.nn.timestep_masker import PITTimestepMasker, PITFrozenTimestepMasker
from plinio.methods.pit.nn.dilation_masker import PITDilationMasker, PITFrozenDilationMasker
from plinio.methods.pit.nn.binarizer import PITBinarizer
from plinio.graph.features_calculation import ModAttrFeaturesCalculator, FlattenFeaturesCalculator, ConstFeaturesCalculator
from plinio.cost import params, params_no_bias, ops, ops_no_bias


def _sym_params(H, layer, tag, bn):
    """havoc weights / bias / BatchNorm of a layer"""
    H.set_(layer.weight, H.tensor(tag + '.weight', H.shape(layer.weight)))
    if layer.bias is not None:
        H.set_(layer.bias, H.tensor(tag + '.bias', H.shape(layer.bias)))
    if bn is not None:
        n = bn.num_features
        H.set_(bn.weight, H.tensor(tag + '.bn.weight', (n,)))
        H.set_(bn.bias, H.tensor(tag + '.bn.bias', (n,)))
        H.set_(bn.running_mean, H.tensor(tag + '.bn.mean', (n,)))
        rv = H.tensor(tag + '.bn.var', (n,))
        H.assume(H.ge(rv, 0))
        H.set_(bn.running_var, rv)


def _copy_bn_stats(H, old_bn, new_bn, mask):
    """the statement's exemption: the re-created BatchNorm is given the statistics of the one it replaces (sliced by the mask)"""
    keep = mask.bool()
    H.set_(new_bn.weight, old_bn.weight[keep])
    H.set_(new_bn.bias, old_bn.bias[keep])
    H.set_(new_bn.running_mean, old_bn.running_mean[keep])
    H.set_(new_bn.running_var, old_bn.running_var[keep])


def _mk_conv1d(H, cin, cout, k, dil0, stride, bias, fold_bn, with_bn, frozen_width, tag):
    conv = nn.Conv1d(cin, cout, k, stride=stride, dilation=dil0, bias=bias)
    fm = PITFrozenFeaturesMasker(cout) if frozen_width else PITFeaturesMasker(cout)
    tm = PITFrozenTimestepMasker(k) if stride != 1 else PITTimestepMasker(k)
    dm = PITFrozenDilationMasker(k) if stride != 1 else PITDilationMasker(k)
    layer = PITConv1d(conv, fm, tm, dm, fold_bn=fold_bn)
    layer.input_features_calculator = ConstFeaturesCalculator(cin)      # the conversion pass always goes through the setter
    bn = None
    if with_bn and not fold_bn:
        bn = nn.BatchNorm1d(cout)
        layer.bn = bn
    _sym_params(H, layer, tag, bn)
    if not frozen_width:
        H.set_(fm.alpha, H.tensor(tag + '.alpha', (cout,)))
    if stride == 1:
        H.set_(tm.beta, H.tensor(tag + '.beta', (k,)))
        H.set_(dm.gamma, H.tensor(tag + '.gamma', H.shape(dm.gamma)))
    layer.eval()
    return layer


# ------------------------------------------------------------------------------------------------- C08: sizes
def h_conv1d_sizes(H, k, dil0, stride, cout):
    """K1-K5: at least one feature / tap, dilation >= 1, frozen => full size, summary == exported sizes, export succeeds"""
    cin = 2
    layer = _mk_conv1d(H, cin, cout, k, dil0, stride, True, False, True, False, 'l')
    kopt, dopt, fopt, iopt = layer.kernel_size_opt, layer.dilation_opt, layer.out_features_opt, layer.in_features_opt
    H.observe('sizes', [kopt[0], dopt[0], fopt, iopt])
    H.ensure('sizes:at-least-one-output-feature', H.and_(fopt >= 1, fopt <= cout))
    H.ensure('sizes:at-least-one-tap', H.and_(kopt[0] >= 1, kopt[0] <= k))
    H.ensure('sizes:dilation-at-least-one', dopt[0] >= 1)
    H.ensure('sizes:receptive-field-never-grows', (kopt[0] - 1) * dopt[0] <= (k - 1) * dil0)
    if stride != 1:
        H.ensure('sizes:frozen-time-masks-keep-kernel-and-dilation', H.and_(kopt[0] == k, dopt[0] == dil0))
    tmask = layer.time_mask
    H.ensure('sizes:most-recent-tap-always-alive', H.eq(H.elements(tmask)[k - 1], 1))
    H.ensure('sizes:last-feature-always-alive', H.eq(H.elements(layer.features_mask)[cout - 1], 1))
    summ = layer.summary()
    pad = nn.ConstantPad1d(((k - 1) * dil0, 0), 0)
    gm, nodes = H.fx_chain([('pad', pad), ('conv', layer)])
    PITConv1d.export(nodes[1], gm)
    mods = dict(H.fx_modules(gm))
    new = mods['conv']
    H.ensure('export:plain-conv1d', H.type_name(new) == 'Conv1d')
    H.ensure('export:sizes-are-those-summary-reports',
             H.and_(new.out_channels == summ['out_features'], new.in_channels == summ['in_features'],
                    new.kernel_size[0] == summ['kernel_size'][0], new.dilation[0] == summ['dilation'][0]))
    H.ensure('export:weight-shape-matches', H.shape(new.weight) == (new.out_channels, new.in_channels, new.kernel_size[0]))
    H.ensure('export:stride-kept', new.stride[0] == stride)
    H.ensure('export:causal-pad-covers-the-new-receptive-field',
             mods['pad'].padding[0] == (new.kernel_size[0] - 1) * new.dilation[0] and mods['pad'].padding[1] == 0)
    bnmod = mods.get('conv_exported_bn')
    H.ensure('export:batchnorm-recreated-with-pruned-width', bnmod is not None and bnmod.num_features == summ['out_features'])


def h_frozen_width(H, kind):
    """layers whose width is fixed by the network's inputs or outputs keep their full width"""
    if kind == 'conv1d':
        layer = _mk_conv1d(H, 2, 3, 3, 1, 1, True, False, False, True, 'l')
        full = 3
    elif kind == 'conv2d':
        layer = PITConv2d(nn.Conv2d(2, 3, 1), PITFrozenFeaturesMasker(3))
        layer.input_features_calculator = ConstFeaturesCalculator(2)
        full = 3
    else:
        layer = PITLinear(nn.Linear(2, 3), PITFrozenFeaturesMasker(3))
        layer.input_features_calculator = ConstFeaturesCalculator(2)
        full = 3
    H.set_(layer.out_features_masker.alpha, H.tensor('alpha', (full,)))
    H.ensure('frozen-width:all-features-kept', H.and_(layer.out_features_opt == full, H.eq(layer.features_mask, H.const_tensor([1.0] * full))))
    layer.discrete_cost = False
    H.ensure('frozen-width:continuous-size-is-full', H.eq(H.scalar(layer.out_features_eff), full))


# ------------------------------------------------------------------------------------------------- C01: export == masked layer
def h_conv1d_export_equiv(H, k, dil0, stride, bias, fold_bn, with_bn, L):
    """producer (PITConv1d k=1, searchable width) -> causal pad -> PITConv1d under test: exported chain == masked chain on
    every input; kept taps, kept channels and surviving weights line up across the layer boundary"""
    c0, c1, c2 = 2, 2, 2
    prod = _mk_conv1d(H, c0, c1, 1, 1, 1, bias, fold_bn, with_bn, False, 'p')
    layer = _mk_conv1d(H, c1, c2, k, dil0, stride, bias, fold_bn, with_bn, False, 'l')
    layer.input_features_calculator = ModAttrFeaturesCalculator(prod, 'out_features_eff', 'features_mask')
    pad = nn.ConstantPad1d(((k - 1) * dil0, 0), 0)
    gm, nodes = H.fx_chain([('prod', prod), ('pad', pad), ('conv', layer)])
    # long enough for the last output position to see every tap of the original receptive field at a distinct input position
    L = (k - 1) * dil0 + L
    x = H.tensor('x', (1, c0, L))
    pmask, lmask = prod.features_mask, layer.features_mask
    pbn, lbn = prod.bn, layer.bn
    PITConv1d.export(nodes[2], gm)
    PITConv1d.export(nodes[0], gm)
    y_pit = layer(pad(prod(x)))           # the searched (masked) layers themselves, eval mode
    mods = dict(H.fx_modules(gm))
    if pbn is not None:
        _copy_bn_stats(H, pbn, mods['prod_exported_bn'], pmask)
        _copy_bn_stats(H, lbn, mods['conv_exported_bn'], lmask)
    for m in mods.values():
        m.eval()
    y_exp = H.fx_run(gm, x)
    H.observe('y_pit', y_pit)
    H.observe('y_exp', y_exp)
    keep = lmask.bool()
    H.ensure('export:output-length-unchanged', H.shape(y_exp)[2] == H.shape(y_pit)[2])
    H.ensure('export:alive-channels-compute-the-same-function', H.eq(y_pit[:, keep, :], y_exp))
    dead = H.const_tensor([0.0, 0.0]) if False else None
    H.ensure('forward:pruned-channels-are-exactly-zero', H.eq(y_pit * (1 - lmask.view(1, -1, 1)), y_pit * 0))


def h_conv2d_export_equiv(H, depthwise, bias, fold_bn, with_bn):
    c0 = 2
    conv_p = nn.Conv2d(c0, 2, 1, bias=bias)
    prod = PITConv2d(conv_p, PITFeaturesMasker(2), fold_bn=fold_bn)
    prod.input_features_calculator = ConstFeaturesCalculator(c0)
    conv_l = nn.Conv2d(2, 2, 2, groups=2 if depthwise else 1, bias=bias, padding=1)
    # depthwise layers share the width (and the masker) of their producer
    fm_l = prod.out_features_masker if depthwise else PITFeaturesMasker(2)
    layer = PITConv2d(conv_l, fm_l, fold_bn=fold_bn)
    pbn = lbn = None
    if with_bn and not fold_bn:
        pbn, lbn = nn.BatchNorm2d(2), nn.BatchNorm2d(2)
        prod.bn, layer.bn = pbn, lbn
    _sym_params(H, prod, 'p', pbn)
    _sym_params(H, layer, 'l', lbn)
    H.set_(prod.out_features_masker.alpha, H.tensor('p.alpha', (2,)))
    if not depthwise:
        H.set_(layer.out_features_masker.alpha, H.tensor('l.alpha', (2,)))
    prod.eval()
    layer.eval()
    layer.input_features_calculator = ModAttrFeaturesCalculator(prod, 'out_features_eff', 'features_mask')
    gm, nodes = H.fx_chain([('prod', prod), ('conv', layer)])
    x = H.tensor('x', (1, c0, 2, 2))
    pmask, lmask = prod.features_mask, layer.features_mask
    summ = layer.summary()
    PITConv2d.export(nodes[1], gm)
    PITConv2d.export(nodes[0], gm)
    y_pit = layer(prod(x))
    mods = dict(H.fx_modules(gm))
    if pbn is not None:
        _copy_bn_stats(H, pbn, mods['prod_exported_bn'], pmask)
        _copy_bn_stats(H, lbn, mods['conv_exported_bn'], lmask)
    for m in mods.values():
        m.eval()
    y_exp = H.fx_run(gm, x)
    H.observe('y_pit', y_pit)
    H.observe('y_exp', y_exp)
    new = mods['conv']
    H.ensure('export:sizes-are-those-summary-reports', H.and_(new.out_channels == summ['out_features'], new.in_channels == summ['in_features']))
    H.ensure('export:at-least-one-output-feature', new.out_channels >= 1)
    if depthwise:
        H.ensure('export:depthwise-stays-depthwise', new.groups == new.in_channels and new.groups == new.out_channels)
    H.ensure('export:alive-channels-compute-the-same-function', H.eq(y_pit[:, lmask.bool(), :, :], y_exp))
    H.ensure('forward:pruned-channels-are-exactly-zero', H.eq(y_pit * (1 - lmask.view(1, -1, 1, 1)), y_pit * 0))


def h_linear_export_equiv(H, bias, fold_bn, with_bn, flatten):
    """conv producer -> (flatten over `flatten` positions per channel) -> PITLinear"""
    c0, c1, c2 = 2, 2, 2
    conv_p = nn.Conv1d(c0, c1, 1, bias=bias)
    prod = PITConv1d(conv_p, PITFeaturesMasker(c1), PITTimestepMasker(1), PITDilationMasker(1), fold_bn=fold_bn)
    prod.input_features_calculator = ConstFeaturesCalculator(c0)
    lin = nn.Linear(c1 * flatten, c2, bias=bias)
    layer = PITLinear(lin, PITFeaturesMasker(c2), fold_bn=fold_bn)
    pbn = lbn = None
    if with_bn and not fold_bn:
        pbn, lbn = nn.BatchNorm1d(c1), nn.BatchNorm1d(c2)
        prod.bn, layer.bn = pbn, lbn
    _sym_params(H, prod, 'p', pbn)
    _sym_params(H, layer, 'l', lbn)
    H.set_(prod.out_features_masker.alpha, H.tensor('p.alpha', (c1,)))
    H.set_(layer.out_features_masker.alpha, H.tensor('l.alpha', (c2,)))
    prod.eval()
    layer.eval()
    layer.input_features_calculator = FlattenFeaturesCalculator(ModAttrFeaturesCalculator(prod, 'out_features_eff', 'features_mask'), flatten)
    gm, nodes = H.fx_chain([('prod', prod), ('flat', nn.Flatten()), ('fc', layer)])
    x = H.tensor('x', (1, c0, flatten))
    pmask, lmask = prod.features_mask, layer.features_mask
    summ = layer.summary()
    H.ensure('calculator:flatten-features-is-alive-channels-times-positions',
             H.eq(layer.in_features_opt, prod.out_features_opt * flatten))
    PITLinear.export(nodes[2], gm)
    PITConv1d.export(nodes[0], gm)
    y_pit = layer(prod(x).flatten(1))
    mods = dict(H.fx_modules(gm))
    if pbn is not None:
        _copy_bn_stats(H, pbn, mods['prod_exported_bn'], pmask)
        _copy_bn_stats(H, lbn, mods['fc_exported_bn'], lmask)
    for m in mods.values():
        m.eval()
    y_exp = H.fx_run(gm, x)
    H.observe('y_pit', y_pit)
    H.observe('y_exp', y_exp)
    new = mods['fc']
    H.ensure('export:sizes-are-those-summary-reports', H.and_(new.out_features == summ['out_features'], new.in_features == summ['in_features']))
    H.ensure('export:alive-features-compute-the-same-function', H.eq(y_pit[:, lmask.bool()], y_exp))
    H.ensure('forward:pruned-features-are-exactly-zero', H.eq(y_pit * (1 - lmask.view(1, -1)), y_pit * 0))


def h_batchnorm_export(H, nd):
    """stand-alone BatchNorm after a searchable layer: exported with the alive statistics of its producer's mask"""
    c = 3
    if nd == 1:
        prod = PITConv1d(nn.Conv1d(2, c, 1), PITFeaturesMasker(c), PITTimestepMasker(1), PITDilationMasker(1))
        prod.input_features_calculator = ConstFeaturesCalculator(2)
        bn = PITBatchNorm1d(nn.BatchNorm1d(c))
        cls = PITBatchNorm1d
    else:
        prod = PITConv2d(nn.Conv2d(2, c, 1), PITFeaturesMasker(c))
        prod.input_features_calculator = ConstFeaturesCalculator(2)
        bn = PITBatchNorm2d(nn.BatchNorm2d(c))
        cls = PITBatchNorm2d
    H.set_(prod.out_features_masker.alpha, H.tensor('alpha', (c,)))
    _sym_params(H, prod, 'p', None)
    _sym_params(H, bn, 'b', bn)
    bn.input_features_calculator = ModAttrFeaturesCalculator(prod, 'out_features_eff', 'features_mask')
    prod.eval()
    bn.eval()
    gm, nodes = H.fx_chain([('prod', prod), ('bn', bn)])
    x = H.tensor('x', (1, 2, 2) if nd == 1 else (1, 2, 1, 2))
    mask = prod.features_mask
    n_alive = prod.out_features_opt
    H.ensure('batchnorm:summary-reports-alive-features', bn.summary()['num_features'] == n_alive)
    cls.export(nodes[1], gm)
    (PITConv1d if nd == 1 else PITConv2d).export(nodes[0], gm)
    y_pit = bn(prod(x))
    mods = dict(H.fx_modules(gm))
    for m in mods.values():
        m.eval()
    y_exp = H.fx_run(gm, x)
    H.ensure('batchnorm:exported-width-is-alive-features', mods['bn'].num_features == n_alive)
    keep = mask.bool()
    H.ensure('batchnorm:alive-channels-compute-the-same-function',
             H.eq(y_pit[:, keep, :] if nd == 1 else y_pit[:, keep, :, :], y_exp))


def h_binarizer(H):
    x = H.tensor('x', (3,))
    th = H.real('threshold')
    y = PITBinarizer.apply(x, th)
    xs, ys = H.elements(x), H.elements(y)
    H.ensure('binarizer:one-above-threshold-else-zero', H.and_(*[H.eq(ys[i], H.ite(H.gt(xs[i], th), 1, 0)) for i in range(3)]))
    g = H.tensor('g', (3,))
    out = PITBinarizer.backward(None, g)
    H.ensure('binarizer-backward:pass-through', H.and_(H.eq(out[0], g), out[1] is None))


# ------------------------------------------------------------------------------------------------- C04 / C12: cost hyper-parameters
def h_conv1d_cost_vars(H, k, dil0, cout, bias):
    """Q1-Q3, Q5: what the cost function is shown; discrete cost == metric of the exported layer; open masks => original sizes"""
    cin = 2
    layer = _mk_conv1d(H, cin, cout, k, dil0, 1, bias, False, False, False, 'l')
    orig_vars = dict(vars(layer))
    layer.discrete_cost = True
    v = layer.get_modified_vars()
    kopt, fopt, iopt = layer.kernel_size_opt[0], layer.out_features_opt, layer.in_features_opt
    H.observe('discrete', [H.scalar(v['out_channels']), H.scalar(v['kernel_size'][0]), H.scalar(v['in_channels'])])
    H.ensure('cost-vars:discrete-out-channels-is-exported-width', H.eq(H.scalar(v['out_channels']), fopt))
    H.ensure('cost-vars:discrete-kernel-is-exported-kernel', H.eq(H.scalar(v['kernel_size'][0]), kopt))
    H.ensure('cost-vars:in-channels-is-alive-input-features', H.eq(H.scalar(v['in_channels']), iopt))
    H.ensure('cost-vars:other-hyper-parameters-untouched',
             all(v[key] is orig_vars[key] or v[key] == orig_vars[key] for key in ('stride', 'groups', 'padding', '_parameters', 'training')))
    H.ensure('cost-vars:layer-not-modified', all(vars(layer)[key] is orig_vars[key] for key in ('kernel_size', 'in_channels', 'out_channels', 'dilation')))
    # params of what export builds = numel(weight') + numel(bias')
    gm, nodes = H.fx_chain([('pad', nn.ConstantPad1d(((k - 1) * dil0, 0), 0)), ('conv', layer)])
    cost_fn = params[(nn.Conv1d, orig_vars)]
    cost_nb = params_no_bias[(nn.Conv1d, orig_vars)]
    c_disc = H.scalar(cost_fn(v))
    c_nb = H.scalar(cost_nb(v))
    PITConv1d.export(nodes[1], gm)
    new = dict(H.fx_modules(gm))['conv']
    n_w = H.shape(new.weight)[0] * H.shape(new.weight)[1] * H.shape(new.weight)[2]
    n_b = H.shape(new.bias)[0] if new.bias is not None else 0
    H.ensure('cost:discrete-params-is-parameter-count-of-exported-layer', H.eq(c_disc, n_w + n_b))
    H.ensure('cost:discrete-params_no_bias-is-weight-count-of-exported-layer', H.eq(c_nb, n_w))
    H.ensure('cost:same-metric-from-scratch-on-exported-layer', H.eq(c_disc, H.scalar(params[(nn.Conv1d, vars(new))](vars(new)))))


def h_conv1d_cost_open_masks(H, k, dil0, cout):
    """before any mask is pruned continuous and discrete effective sizes are the original ones"""
    conv = nn.Conv1d(2, cout, k, dilation=dil0)
    layer = PITConv1d(conv, PITFeaturesMasker(cout), PITTimestepMasker(k), PITDilationMasker(k))
    layer.input_features_calculator = ConstFeaturesCalculator(2)
    for disc in (True, False):
        layer.discrete_cost = disc
        v = layer.get_modified_vars()
        tag = 'discrete' if disc else 'continuous'
        H.ensure('open-masks:%s-kernel-is-original' % tag, H.eq(H.scalar(v['kernel_size'][0]), k))
        H.ensure('open-masks:%s-width-is-original' % tag, H.eq(H.scalar(v['out_channels']), cout))
        H.ensure('open-masks:%s-in-channels-is-original' % tag, H.eq(H.scalar(v['in_channels']), 2))
    H.ensure('open-masks:export-sizes-are-original',
             H.and_(layer.kernel_size_opt[0] == k, layer.dilation_opt[0] == dil0, layer.out_features_opt == cout))


def h_conv1d_cost_monotone(H, k, cout, discrete):
    """C12-M1: raising the magnitude of any mask parameter never lowers an effective size (both cost modes); sizes >= 0"""
    conv = nn.Conv1d(2, cout, k)
    la = PITConv1d(conv, PITFeaturesMasker(cout), PITTimestepMasker(k), PITDilationMasker(k), discrete_cost=discrete)
    lb = PITConv1d(conv, PITFeaturesMasker(cout), PITTimestepMasker(k), PITDilationMasker(k), discrete_cost=discrete)
    la.input_features_calculator = ConstFeaturesCalculator(2)
    lb.input_features_calculator = ConstFeaturesCalculator(2)
    for nm, ta, tb in (('alpha', la.out_features_masker.alpha, lb.out_features_masker.alpha),
                       ('beta', la.timestep_masker.beta, lb.timestep_masker.beta),
                       ('gamma', la.dilation_masker.gamma, lb.dilation_masker.gamma)):
        a, b = H.tensor(nm + 'A', H.shape(ta)), H.tensor(nm + 'B', H.shape(tb))
        for x, y in zip(H.elements(a), H.elements(b)):
            H.assume(H.le(H.abs(x), H.abs(y)))
        H.set_(ta, a)
        H.set_(tb, b)
    va, vb = la.get_modified_vars(), lb.get_modified_vars()
    H.observe('eff', [H.scalar(va['out_channels']), H.scalar(va['kernel_size'][0])])
    H.ensure('cost-vars:width-non-negative-and-monotone-in-mask-magnitude',
             H.and_(H.ge(H.scalar(va['out_channels']), 0), H.le(H.scalar(va['out_channels']), H.scalar(vb['out_channels']))))
    H.ensure('cost-vars:kernel-non-negative-and-monotone-in-mask-magnitude',
             H.and_(H.ge(H.scalar(va['kernel_size'][0]), 0), H.le(H.scalar(va['kernel_size'][0]), H.scalar(vb['kernel_size'][0]))))


def h_conv2d_linear_cost_vars(H, kind, bias, discrete):
    """get_modified_vars of PITConv2d / PITLinear: effective counts under the PyTorch names of the layer type, monotone, exact"""
    if kind == 'conv2d':
        la = PITConv2d(nn.Conv2d(2, 3, 2, bias=bias), PITFeaturesMasker(3), discrete_cost=discrete)
        lb = PITConv2d(nn.Conv2d(2, 3, 2, bias=bias), PITFeaturesMasker(3), discrete_cost=discrete)
        kin, kout, typ = 'in_channels', 'out_channels', nn.Conv2d
    else:
        la = PITLinear(nn.Linear(2, 3, bias=bias), PITFeaturesMasker(3), discrete_cost=discrete)
        lb = PITLinear(nn.Linear(2, 3, bias=bias), PITFeaturesMasker(3), discrete_cost=discrete)
        kin, kout, typ = 'in_features', 'out_features', nn.Linear
    la.input_features_calculator = ConstFeaturesCalculator(2)
    lb.input_features_calculator = ConstFeaturesCalculator(2)
    a, b = H.tensor('alphaA', (3,)), H.tensor('alphaB', (3,))
    for x, y in zip(H.elements(a), H.elements(b)):
        H.assume(H.le(H.abs(x), H.abs(y)))
    H.set_(la.out_features_masker.alpha, a)
    H.set_(lb.out_features_masker.alpha, b)
    static = dict(vars(la))
    va, vb = la.get_modified_vars(), lb.get_modified_vars()
    H.ensure('cost-vars:width-non-negative-and-monotone-in-mask-magnitude',
             H.and_(H.ge(H.scalar(va[kout]), 0), H.le(H.scalar(va[kout]), H.scalar(vb[kout]))))
    H.ensure('cost-vars:in-features-from-calculator', H.eq(H.scalar(va[kin]), 2))
    # reading the description is an observer: the layer's own attributes are the objects they were
    H.ensure('cost-vars:layer-not-modified', sorted(vars(la).keys()) == sorted(static.keys()) and all(vars(la)[key] is static[key] for key in static))
    if discrete:
        H.ensure('cost-vars:discrete-width-is-exported-width', H.eq(H.scalar(va[kout]), la.out_features_opt))
        c = H.scalar(params[(typ, static)](va))
        n_out = la.out_features_opt
        per_out = (2 * 4 if kind == 'conv2d' else 2) + (1 if bias else 0)
        H.ensure('cost:discrete-params-is-parameter-count-of-exported-layer', H.eq(c, n_out * per_out))
    else:
        H.ensure('cost-vars:continuous-width-is-sum-of-mask-values',
                 H.eq(H.scalar(va[kout]), H.sum([H.abs(x) for x in H.elements(a)[:2]]) + 1))


_ENUM = 'kernel sizes 1..9 (quick) / 1..16 (thorough), initial dilation 1..3, stride 1..2, 1..5 output channels, fold_bn / fused / no BatchNorm, bias on/off are enumerated; values are arbitrary reals'
PROPERTY = {
    'C08': dict(
        level='other',
        explanation='(per-layer clauses are proofs over all real parameter values; the property as a whole is claimed at level other because its whole-model clauses are bounded in '
                    'topology and two architectures are known findings) K1-K5 as post-conditions of the real mask / size / export code for ALL real architectural parameters: >= 1 feature, >= 1 tap, dilation >= 1, '
                    'frozen maskers keep full size, exported module sizes == summary(), export defined (no exception path). ' + _ENUM,
        not_decided=['which width groups are frozen and that whole exported architectures still run: decided only for the enumerated topologies of contracts/pit_graph.py and the enumerated '
                     'whole models of contracts/whole_pit.py (bounded in topology), not for every architecture',
                     'float32 absorption for huge parameter values such as 1e30 (A-real)',
                     'known finding on the unchanged tree (known_findings.json): a temporal convolution with built-in symmetric padding changes the output length when its receptive field is pruned '
                     '(the concatenated-output defect was repaired: /repo ea4435a)'],
        assumptions=['single-node fx bookkeeping (get_submodule / add_submodule / inserting_before / call_module) as specified in pyvc/torchlib.py'],
    ),
    'C01': dict(
        level='other',
        explanation='per layer: the chain producer -> [causal pad] -> searchable layer is exported and the exported chain is shown equal to the masked chain on '
                    'EVERY input (symbolic input, weights, BatchNorm statistics) for every reachable mask pattern; dead channels exactly zero. ' + _ENUM,
        not_decided=['composition of the per-layer equivalences over EVERY architecture of the grammar: whole-model export equivalence is discharged only for the enumerated '
                     'architectures of contracts/whole_pit.py (there with width masks symbolic, time / dilation masks at their initial value)',
                     'float round-off (A-real): equality is of real-valued terms'],
        assumptions=['the re-created BatchNorm is given the statistics of the one it replaces (the statement\'s exemption)',
                     'single-node fx bookkeeping as specified in pyvc/torchlib.py', 'input length = receptive field + 1 (2 for stride 2)'],
    ),
    'C04': dict(
        level='other',
        explanation='per layer: what get_modified_vars shows the cost function (discrete = exported sizes, names, untouched keys), params of the exported layer = '
                    'numel(weight) + numel(bias), open masks => continuous = discrete = original sizes for every kernel size 1..16(32); wrapper level '
                    '(contracts/wrappers.py): PIT._get_single_cost sums the right layers and invocations for shared / per-invocation metrics, full_cost, dict specs',
        not_decided=['architectures (concat / flatten / repeated-layer topologies) beyond the calculator contracts of C09', 'output shapes are read from tensor_meta '
                     'as the code does (hypothesis H-shape)', 'ops / gap8 metrics through the PIT layers (their own clauses are under C16)'],
        assumptions=['convert() under an assumed contract (returns the module tree and the two leaf lists)'],
    ),
    'C12': dict(
        level='other',
        explanation='composed from: non-negativity / definedness / monotonicity of every cost function (C16 harnesses), effective sizes non-negative and monotone '
                    'in the magnitude of every mask parameter in both cost modes, open masks = original sizes, cost reads no weights (the probing cost '
                    'specifications of contracts/wrappers.py receive only hyper-parameters), pass-through backward bodies of every straight-through function',
        not_decided=['every clause about .grad (finite, non-zero for trainable elements, none to weights): autograd is trusted, only the hand-written backward '
                     'bodies are under contract', 'ODiMO: the parallel-accelerator reduction is under contract on a latency vector (between min and max); the default ODiMO_MPS cost cannot be evaluated on the unchanged tree (known finding, contracts/odimo.py)', 'GateSTE / PACTActSTE backward (not pass-through by design)', 'continuous-mode monotonicity of the effective kernel size for kernel sizes above 7 (bilinear in 13+ parameters: the solvers time out; discrete mode goes up to 9)'],
        assumptions=[],
    ),
}

_P = 'plinio/methods/pit/nn/'
_F1 = [_P + 'conv1d.py::PITConv1d.' + f for f in ('__init__', 'forward', 'export', 'summary', '_features_mask', '_time_mask', 'features_mask', 'time_mask',
                                                  'out_features_opt', 'in_features_opt', 'kernel_size_opt', 'dilation_opt', '_generate_norm_constants',
                                                  'input_features_calculator')] + \
      [_P + 'features_masker.py::PITFeaturesMasker.' + f for f in ('__init__', 'theta', '_generate_keep_alive_mask')] + \
      [_P + 'timestep_masker.py::PITTimestepMasker.' + f for f in ('__init__', 'theta', '_generate_keep_alive_mask', '_generate_c_matrix')] + \
      [_P + 'dilation_masker.py::PITDilationMasker.' + f for f in ('__init__', 'theta', '_generate_keep_alive_mask', '_generate_c_matrix', '_gamma_len')] + \
      [_P + 'binarizer.py::PITBinarizer.forward']
_B = (True, False)
_bnmodes = [dict(fold_bn=False, with_bn=True), dict(fold_bn=True, with_bn=False), dict(fold_bn=False, with_bn=False)]
HARNESSES = [
    dict(name='conv1d-sizes', fn='h_conv1d_sizes', property=['C08'], functions=_F1,
         quick=[dict(k=k, dil0=1, stride=1, cout=2) for k in range(1, 10)] + [dict(k=3, dil0=2, stride=1, cout=3), dict(k=4, dil0=3, stride=1, cout=2),
                                                                             dict(k=5, dil0=1, stride=2, cout=2), dict(k=4, dil0=2, stride=2, cout=2)],
         thorough=[dict(k=k, dil0=d, stride=1, cout=2) for k in range(1, 13) for d in (1, 2, 3)] + [dict(k=k, dil0=d, stride=2, cout=3) for k in (1, 3, 4, 7) for d in (1, 2)] +
                  [dict(k=k, dil0=1, stride=1, cout=c) for k in (13, 14, 15, 16) for c in (2,)] + [dict(k=3, dil0=1, stride=1, cout=c) for c in (1, 3, 4, 5)],
         timeout=60),
    dict(name='frozen-width', fn='h_frozen_width', property=['C08'],
         functions=[_P + 'features_masker.py::PITFrozenFeaturesMasker.__init__', _P + 'features_masker.py::PITFrozenFeaturesMasker.theta'],
         quick=[dict(kind=k) for k in ('conv1d', 'conv2d', 'linear')], thorough=[dict(kind=k) for k in ('conv1d', 'conv2d', 'linear')]),
    dict(name='conv1d-export-equiv', fn='h_conv1d_export_equiv', property=['C01'], functions=_F1 + ['plinio/graph/features_calculation.py::ModAttrFeaturesCalculator.features_mask'],
         quick=[dict(k=k, dil0=1, stride=1, bias=True, L=1, **m) for k in (1, 2, 3, 4, 5, 6, 7) for m in _bnmodes[:1]] +
               [dict(k=k, dil0=1, stride=1, bias=True, L=1, **m) for k in (3, 4) for m in _bnmodes[1:]] +
               [dict(k=3, dil0=2, stride=1, bias=False, L=1, **_bnmodes[0]), dict(k=3, dil0=1, stride=2, bias=True, L=2, **_bnmodes[0]),
                dict(k=8, dil0=1, stride=1, bias=False, L=1, **_bnmodes[2]), dict(k=9, dil0=1, stride=1, bias=False, L=1, **_bnmodes[2])],
         thorough=[dict(k=k, dil0=d, stride=1, bias=b, L=1, **m) for k in range(1, 10) for d in (1, 2, 3) for b in _B for m in _bnmodes if (b or m['fold_bn'] is False)] +
                  [dict(k=k, dil0=d, stride=2, bias=True, L=2, **m) for k in (1, 2, 3, 4, 5) for d in (1, 2) for m in _bnmodes],
         timeout=60, max_paths=40000),
    dict(name='conv2d-export-equiv', fn='h_conv2d_export_equiv', property=['C01', 'C08'],
         functions=[_P + 'conv2d.py::PITConv2d.' + f for f in ('__init__', 'forward', 'export', 'summary', '_features_mask', 'features_mask', 'out_features_opt', 'in_features_opt')],
         quick=[dict(depthwise=d, bias=b, **m) for d in _B for b in _B for m in _bnmodes],
         thorough=[dict(depthwise=d, bias=b, **m) for d in _B for b in _B for m in _bnmodes], timeout=60),
    dict(name='linear-export-equiv', fn='h_linear_export_equiv', property=['C01', 'C08', 'C09'],
         functions=[_P + 'linear.py::PITLinear.' + f for f in ('__init__', 'forward', 'export', 'summary', '_features_mask', 'features_mask', 'out_features_opt', 'in_features_opt')] +
                   ['plinio/graph/features_calculation.py::FlattenFeaturesCalculator.features_mask', 'plinio/graph/features_calculation.py::FlattenFeaturesCalculator.register'],
         quick=[dict(bias=b, flatten=f, **m) for b in _B for f in (1, 2) for m in _bnmodes],
         thorough=[dict(bias=b, flatten=f, **m) for b in _B for f in (1, 2, 3) for m in _bnmodes], timeout=60),
    dict(name='batchnorm-export', fn='h_batchnorm_export', property=['C01'],
         functions=[_P + 'batchnorm_1d.py::PITBatchNorm1d.export', _P + 'batchnorm_2d.py::PITBatchNorm2d.export', _P + 'batchnorm_1d.py::PITBatchNorm1d.__init__',
                    _P + 'batchnorm_2d.py::PITBatchNorm2d.__init__'],
         quick=[dict(nd=1), dict(nd=2)], thorough=[dict(nd=1), dict(nd=2)]),
    dict(name='binarizer', fn='h_binarizer', property=['C01', 'C08', 'C12'], functions=[_P + 'binarizer.py::PITBinarizer.forward', _P + 'binarizer.py::PITBinarizer.backward'],
         quick=[{}], thorough=[{}]),
    dict(name='conv1d-cost-vars', fn='h_conv1d_cost_vars', property=['C04', 'C18'],
         functions=[_P + 'conv1d.py::PITConv1d.get_modified_vars', _P + 'conv1d.py::PITConv1d.out_features_eff', _P + 'conv1d.py::PITConv1d.k_eff'],
         quick=[dict(k=k, dil0=1, cout=2, bias=True) for k in (1, 2, 3, 4, 5, 6, 7, 9)] + [dict(k=3, dil0=2, cout=3, bias=False)],
         thorough=[dict(k=k, dil0=d, cout=2, bias=b) for k in range(1, 13) for d in (1, 2) for b in _B], timeout=60),
    dict(name='conv1d-cost-open-masks', fn='h_conv1d_cost_open_masks', property=['C04', 'C12'],
         functions=[_P + 'conv1d.py::PITConv1d._generate_norm_constants', _P + 'conv1d.py::PITConv1d._time_mask', _P + 'conv1d.py::PITConv1d.k_eff'],
         quick=[dict(k=k, dil0=d, cout=3) for k in range(1, 17) for d in (1, 2)], thorough=[dict(k=k, dil0=d, cout=3) for k in range(1, 33) for d in (1, 2, 3)]),
    dict(name='conv1d-cost-monotone', fn='h_conv1d_cost_monotone', property=['C12'],
         functions=[_P + 'conv1d.py::PITConv1d.get_modified_vars', _P + 'conv1d.py::PITConv1d.out_features_eff', _P + 'conv1d.py::PITConv1d.k_eff'],
         quick=[dict(k=k, cout=2, discrete=d) for k in (1, 2, 3, 4, 5, 6) for d in _B], thorough=[dict(k=k, cout=3, discrete=d) for k in range(1, 8) for d in _B] + [dict(k=k, cout=3, discrete=True) for k in (8, 9)], timeout=120),
    dict(name='conv2d-linear-cost-vars', fn='h_conv2d_linear_cost_vars', property=['C04', 'C12', 'C18'],
         functions=[_P + 'conv2d.py::PITConv2d.get_modified_vars', _P + 'conv2d.py::PITConv2d.out_features_eff', _P + 'linear.py::PITLinear.get_modified_vars',
                    _P + 'linear.py::PITLinear.out_features_eff'],
         quick=[dict(kind=k, bias=b, discrete=d) for k in ('conv2d', 'linear') for b in _B for d in _B],
         thorough=[dict(kind=k, bias=b, discrete=d) for k in ('conv2d', 'linear') for b in _B for d in _B]),
]
