"""C16 - built-in cost models are finite, non-negative and monotone in layer size.

Functions under contract: every function registered in the eleven cost specifications of plinio/cost (reached through the public
CostSpec lookup, so the private names can change), the straight-through rounding helpers and the look-up table.

Valid layer description V(spec): channel / feature counts are reals >= 0 (the relaxed counts seen during a search), kernel
entries and output extents integers >= 1, bias present or absent, bit-widths in the set the model supports.
Clauses (from the statement): O1 defined and >= 0; O2 > 0 for a non-empty layer at non-zero bit-widths; O3 relational:
spec <= spec' (channels, kernel, output resolution, and bit-widths where they scale the work) => f(spec) <= f(spec');
O4 depthwise = generic per group for the hardware independent size / operation counts; O5 rounding helpers exact + gradient
pass-through; O6 rejection of unsupported precisions / layer kinds.
"""
import torch
import torch.nn as nn
from plinio.cost import params, params_no_bias, params_bit, ops, ops_no_bias, ops_bit, gap8_latency, mpic_latency, mpic_energy, \
    diana_latency, ne16_latency
from plinio.cost import gap8_latency as _gap8_mod_spec
from plinio.cost.gap8_latency import FloorSTE as Gap8FloorSTE, _floor as gap8_floor
from plinio.cost.diana_latency import FloorSTE as DianaFloorSTE, GateSTE, ComputeOxUnrollSTE, _floor as diana_floor
from plinio.cost.ne16_latency import FloorDivideSTE, DivAndCeilSTE, ModuloSTE
from plinio.cost.mpic_latency import _mpic_lut

FAMILIES = {'params': params, 'params_no_bias': params_no_bias, 'params_bit': params_bit, 'ops': ops, 'ops_no_bias': ops_no_bias,
            'ops_bit': ops_bit, 'gap8_latency': gap8_latency, 'mpic_latency': mpic_latency, 'mpic_energy': mpic_energy}
USES_W_BITS = ('params_bit', 'ops_bit', 'mpic_latency', 'mpic_energy')
USES_A_BITS = ('ops_bit', 'mpic_latency', 'mpic_energy')
MPIC = ('mpic_latency', 'mpic_energy')
LAYER = {'conv1d': nn.Conv1d, 'conv1d_dw': nn.Conv1d, 'conv2d': nn.Conv2d, 'conv2d_dw': nn.Conv2d, 'linear': nn.Linear}


def _selector(kind):
    """a static layer description used only to pick the registered function through the public lookup"""
    if kind == 'linear':
        return {'in_features': 8, 'out_features': 4}
    nd = 1 if kind.startswith('conv1d') else 2
    g = 4 if kind.endswith('_dw') else 1
    return {'in_channels': 4, 'out_channels': 4, 'groups': g, 'kernel_size': (5,) * nd}


def _spec(H, kind, bias, tag):
    """a symbolic valid layer description"""
    s = {'_parameters': {'bias': torch.zeros(1) if bias else None}}
    if kind == 'linear':
        cin, cout = H.tensor('cin' + tag, ()), H.tensor('cout' + tag, ())
        H.assume(H.and_(H.ge(cin, 0), H.ge(cout, 0)))
        s['in_features'], s['out_features'] = cin, cout
        s['output_shape'] = (1, 4)
        dims = []
    else:
        nd = 1 if kind.startswith('conv1d') else 2
        if kind.endswith('_dw'):
            cin = H.tensor('c' + tag, ())
            cout = cin
            H.assume(H.ge(cin, 0))
            s['groups'] = cin
        else:
            cin, cout = H.tensor('cin' + tag, ()), H.tensor('cout' + tag, ())
            H.assume(H.and_(H.ge(cin, 0), H.ge(cout, 0)))
            s['groups'] = 1
        s['in_channels'], s['out_channels'] = cin, cout
        ks = tuple(H.int('k%d%s' % (d, tag)) for d in range(nd))
        os_ = tuple(H.int('o%d%s' % (d, tag)) for d in range(nd))
        for v in ks + os_:
            H.assume(v >= 1)
        s['kernel_size'] = ks
        s['output_shape'] = (1, 4) + os_
        dims = list(ks) + list(os_)
    return s, cin, cout, dims


def _bits(H, fam, s, tag):
    w = a = None
    if fam in USES_W_BITS:
        w = H.itensor('wbits' + tag, ())
        s['w_precision'] = w
        if fam in MPIC:
            H.assume(H.or_(*[H.eq(w, b) for b in (0, 2, 4, 8)]))
        else:
            H.assume(H.ge(w, 0))
    if fam in USES_A_BITS:
        a = H.itensor('abits' + tag, ())
        s['in_precision'] = a
        if fam in MPIC:
            H.assume(H.or_(*[H.eq(a, b) for b in (2, 4, 8)]))
        else:
            H.assume(H.ge(a, 0))
    return w, a


def h_model(H, fam, kind, bias):
    """O1, O2, O3 for one registered cost function"""
    spec_obj = FAMILIES[fam]
    fn = spec_obj[(LAYER[kind], _selector(kind))]
    sA, cinA, coutA, dimsA = _spec(H, kind, bias, 'A')
    sB, cinB, coutB, dimsB = _spec(H, kind, bias, 'B')
    wA, aA = _bits(H, fam, sA, 'A')
    wB, aB = _bits(H, fam, sB, 'B')
    H.assume(H.and_(H.le(cinA, cinB), H.le(coutA, coutB)))
    for x, y in zip(dimsA, dimsB):
        H.assume(x <= y)
    if wA is not None:
        H.assume(H.le(wA, wB))
    if aA is not None:
        H.assume(H.le(aA, aB))
    fA = H.scalar(fn(sA))
    fB = H.scalar(fn(sB))
    H.observe('fA', fA)
    H.observe('fB', fB)
    H.ensure('cost:non-negative', H.ge(fA, 0))
    nonempty = H.and_(H.ge(cinA, 1), H.ge(coutA, 1))
    if wA is not None:
        nonempty = H.and_(nonempty, H.gt(wA, 0))
    if aA is not None:
        nonempty = H.and_(nonempty, H.gt(aA, 0))
    H.ensure('cost:positive-for-non-empty-layer', H.implies(nonempty, H.gt(fA, 0)))
    H.ensure('cost:monotone-in-size-and-bits', H.le(fA, fB))


def h_dw_is_generic_per_group(H, fam, nd, bias):
    """O4: depthwise formula == C x generic formula evaluated for one group (1 input channel, 1 output channel)"""
    spec_obj = FAMILIES[fam]
    kd, kg = ('conv%dd_dw' % nd), ('conv%dd' % nd)
    f_dw = spec_obj[(LAYER[kd], _selector(kd))]
    f_g = spec_obj[(LAYER[kg], _selector(kg))]
    s, c, _, dims = _spec(H, kd, bias, '')
    w, a = _bits(H, fam, s, '')
    g = dict(s)
    g['in_channels'] = torch.tensor(1.0)
    g['out_channels'] = torch.tensor(1.0)
    g['groups'] = 1
    d = H.scalar(f_dw(s))
    one = H.scalar(f_g(g))
    H.observe('dw', d)
    H.ensure('cost:depthwise-equals-generic-per-group', H.eq(d, H.mul(H.scalar(c), one)))


def h_lookup_registered(H, fam):
    """every specification answers for the patterns it claims; unknown layer types get the default (zero cost)"""
    spec_obj = FAMILIES[fam]
    fz = spec_obj[(nn.BatchNorm2d, {'num_features': 4})]
    H.ensure('spec:unregistered-type-costs-zero', H.eq(H.scalar(fz({'num_features': 4})), 0))
    kinds = ['conv2d', 'conv2d_dw', 'linear'] + ([] if fam == 'gap8_latency' else ['conv1d', 'conv1d_dw'])
    fns = [spec_obj[(LAYER[k], _selector(k))] for k in kinds]
    H.ensure('spec:registered-patterns-have-models', H.and_(*[not H.same_object(f, fz) for f in fns]))
    H.ensure('spec:depthwise-and-generic-models-differ', not H.same_object(fns[0], fns[1]))


# ------------------------------------------------------------------------------------------------- rounding helpers (O5)
def h_round_helpers_int(H, b):
    """exact integer floor / ceiling / modulo on integer arguments (divisor enumerated: the models use constants)"""
    a = H.int('a')
    H.assume(a >= 0)
    ta, tb = H.scalar_tensor(a), H.scalar_tensor(b)
    q = H.scalar(FloorDivideSTE.apply(ta, tb))
    H.ensure('FloorDivideSTE:exact-floor', H.and_(H.is_integer(q), H.le(H.mul(q, b), a), H.lt(a, H.mul(H.add(q, 1), b))))
    H.assume(a >= 1)
    c = H.scalar(DivAndCeilSTE.apply(ta, tb))
    H.ensure('DivAndCeilSTE:exact-ceiling', H.and_(H.is_integer(c), H.ge(H.mul(c, b), a), H.lt(H.mul(H.sub(c, 1), b), a)))
    m = H.scalar(ModuloSTE.apply(ta, tb))
    H.ensure('ModuloSTE:exact-modulo', H.and_(H.ge(m, 0), H.lt(m, b), H.eq(H.add(H.mul(q, b), m), a)))
    H.observe('q', q)
    H.observe('c', c)
    H.observe('m', m)


def h_floor_ste(H, which, N):
    """FloorSTE(ch, N) = ceil(ch / N) on integers, monotone on reals; _floor likewise"""
    cls = Gap8FloorSTE if which == 'gap8' else DianaFloorSTE
    fl = gap8_floor if which == 'gap8' else diana_floor
    n = H.int('n')
    H.assume(n >= 0)
    r = H.scalar(cls.apply(H.scalar_tensor(n), N))
    H.ensure('FloorSTE:exact-ceiling-on-integers', H.and_(H.is_integer(r), H.ge(H.mul(r, N), n), H.lt(H.mul(H.sub(r, 1), N), n)))
    H.ensure('_floor:exact-ceiling-on-integers', H.eq(fl(n, N), r))
    x, y = H.tensor('x', ()), H.tensor('y', ())
    H.assume(H.and_(H.ge(x, 0), H.le(x, y)))
    rx, ry = H.scalar(cls.apply(x, N)), H.scalar(cls.apply(y, N))
    H.ensure('FloorSTE:monotone-on-relaxed-counts', H.le(rx, ry))
    H.ensure('FloorSTE:non-negative', H.ge(rx, 0))
    H.observe('rx', rx)


def h_ste_backward(H, which):
    """hand-written backward bodies pass the gradient through unchanged and give None for the constants"""
    g = H.tensor('grad', (2,))
    table = {'gap8.FloorSTE': (Gap8FloorSTE, 2), 'diana.FloorSTE': (DianaFloorSTE, 2), 'FloorDivideSTE': (FloorDivideSTE, 2),
             'DivAndCeilSTE': (DivAndCeilSTE, 2), 'ModuloSTE': (ModuloSTE, 2), 'ComputeOxUnrollSTE': (ComputeOxUnrollSTE, 4)}
    cls, nargs = table[which]
    out = cls.backward(None, g)
    H.ensure('backward:arity', len(out) == nargs)
    H.ensure('backward:gradient-passes-through', H.eq(out[0], g))
    H.ensure('backward:none-for-constants', H.and_(*[o is None for o in out[1:]]))


def h_mpic_lut_rejects(H):
    """O6: the look-up table raises for anything but a in {2,4,8}, w in {0,2,4,8}"""
    a, w = H.int('a'), H.int('w')
    ok = H.and_(H.or_(a == 2, a == 4, a == 8), H.or_(w == 0, w == 2, w == 4, w == 8))
    raised = False
    v = None
    try:
        v = _mpic_lut(a, w)
    except AssertionError:
        raised = True
    H.ensure('mpic_lut:rejects-exactly-unsupported-precisions', H.iff(raised, H.not_(ok)))
    if not raised:
        H.ensure('mpic_lut:zero-only-for-zero-bit-weights', H.iff(w == 0, H.eq(v, 0)))
        H.ensure('mpic_lut:non-negative', H.ge(v, 0))


def h_mpic_lut_monotone(H):
    a, w, a2, w2 = H.int('a'), H.int('w'), H.int('a2'), H.int('w2')
    for x in (a, a2):
        H.assume(H.or_(x == 2, x == 4, x == 8))
    for x in (w, w2):
        H.assume(H.or_(x == 0, x == 2, x == 4, x == 8))
    H.assume(H.and_(a <= a2, w <= w2))
    H.ensure('mpic_lut:monotone-in-both-precisions', H.le(_mpic_lut(a, w), _mpic_lut(a2, w2)))


PROPERTY = {
    'C16': dict(
        level='other',
        explanation='O1-O6 are post-conditions / relational clauses of the real cost functions over all valid (relaxed) layer descriptions: every function '
                    'registered in params, params_no_bias, params_bit, ops, ops_no_bias, ops_bit, gap8_latency, mpic_latency, mpic_energy, ne16_latency and '
                    'diana_latency, the rounding helpers and the MPIC look-up table.  NE16: one dimension varied at a time; monotonicity in the output channels of '
                    '3x3 / 1x1 convolutions goes through lemmas on the real code - latency factorises over spatial tiles; at a single output position it is affine '
                    'in the number of input tiles; base (0 input channels) and slope (latency(16) - latency(0)) are monotone in the output channels - and two '
                    'arithmetic skeletons over opaque reals (the direct relational query mixes div/mod with tri-linear terms and was unstable: 3 s to 366 s).  The ratio ops/latency that Ne16PerfModel_generalized computes and discards is 0/0 for an empty layer: reported '
                    'as an undefined intermediate that does not reach the result, not as a violation.',
        not_decided=['float32 rounding of the latency formulas (A-real)', 'joint (several dimensions at once) monotonicity for NE16 / DIANA follows from the '
                     'one-dimension-at-a-time clauses by transitivity (not machine-checked)', 'w_theta_alpha other than 1 in the NE16 model (relaxed weight of a '
                     'precision during the search)', 'GateSTE.backward (smooth-step gradient, not pass-through by design)'],
        assumptions=['valid layer description V(spec) as stated in contracts/c16.py'],
    ),
}

_SIZE = ['params', 'params_no_bias', 'params_bit', 'ops', 'ops_no_bias', 'ops_bit', 'mpic_latency', 'mpic_energy']
_KINDS = ['conv1d', 'conv1d_dw', 'conv2d', 'conv2d_dw', 'linear']
_model_cfgs = [dict(fam=f, kind=k, bias=b) for f in _SIZE for k in _KINDS for b in (True, False)] + \
              [dict(fam='gap8_latency', kind=k, bias=b) for k in ('conv2d', 'conv2d_dw', 'linear') for b in (True,)]

HARNESSES = [
    dict(name='model', fn='h_model', property='C16', functions=['plinio/cost/*.py::<every registered cost function>'],
         quick=_model_cfgs, thorough=_model_cfgs, timeout=180),
    dict(name='dw-generic', fn='h_dw_is_generic_per_group', property='C16', functions=[],
         quick=[dict(fam=f, nd=nd, bias=b) for f in ('params', 'params_no_bias', 'params_bit', 'ops', 'ops_no_bias', 'ops_bit')
                for nd in (1, 2) for b in (True, False)],
         thorough=[dict(fam=f, nd=nd, bias=b) for f in ('params', 'params_no_bias', 'params_bit', 'ops', 'ops_no_bias', 'ops_bit')
                   for nd in (1, 2) for b in (True, False)]),
    dict(name='registered', fn='h_lookup_registered', property='C16', functions=[],
         quick=[dict(fam=f) for f in _SIZE + ['gap8_latency']], thorough=[dict(fam=f) for f in _SIZE + ['gap8_latency']]),
    dict(name='round-helpers', fn='h_round_helpers_int', property='C16',
         functions=['plinio/cost/ne16_latency.py::FloorDivideSTE.forward', 'plinio/cost/ne16_latency.py::DivAndCeilSTE.forward',
                    'plinio/cost/ne16_latency.py::ModuloSTE.forward'],
         quick=[dict(b=b) for b in (1, 2, 3, 4, 8, 16, 32, 256)], thorough=[dict(b=b) for b in (1, 2, 3, 4, 5, 7, 8, 16, 32, 64, 128, 256)]),
    dict(name='floor-ste', fn='h_floor_ste', property='C16',
         functions=['plinio/cost/gap8_latency.py::FloorSTE.forward', 'plinio/cost/gap8_latency.py::_floor',
                    'plinio/cost/diana_latency.py::FloorSTE.forward', 'plinio/cost/diana_latency.py::_floor'],
         quick=[dict(which=w, N=n) for w in ('gap8', 'diana') for n in (2, 4, 16, 128, 512)],
         thorough=[dict(which=w, N=n) for w in ('gap8', 'diana') for n in (2, 3, 4, 8, 16, 128, 512)]),
    dict(name='ste-backward', fn='h_ste_backward', property=['C16', 'C12'],
         functions=['plinio/cost/gap8_latency.py::FloorSTE.backward', 'plinio/cost/diana_latency.py::FloorSTE.backward',
                    'plinio/cost/ne16_latency.py::FloorDivideSTE.backward', 'plinio/cost/ne16_latency.py::DivAndCeilSTE.backward',
                    'plinio/cost/ne16_latency.py::ModuloSTE.backward', 'plinio/cost/diana_latency.py::ComputeOxUnrollSTE.backward'],
         quick=[dict(which=w) for w in ('gap8.FloorSTE', 'diana.FloorSTE', 'FloorDivideSTE', 'DivAndCeilSTE', 'ModuloSTE', 'ComputeOxUnrollSTE')],
         thorough=[dict(which=w) for w in ('gap8.FloorSTE', 'diana.FloorSTE', 'FloorDivideSTE', 'DivAndCeilSTE', 'ModuloSTE', 'ComputeOxUnrollSTE')]),
    dict(name='mpic-lut-rejects', fn='h_mpic_lut_rejects', property='C16', functions=['plinio/cost/mpic_latency.py::_mpic_lut'],
         quick=[{}], thorough=[{}]),
    dict(name='mpic-lut-monotone', fn='h_mpic_lut_monotone', property='C16', functions=['plinio/cost/mpic_latency.py::_mpic_lut'],
         quick=[{}], thorough=[{}]),
]


# ------------------------------------------------------------------------------------------------- NE16
def _ne16_spec(H, kind, tag, theta):
    s = {'in_precision': torch.tensor(8), 'w_theta_alpha': theta}
    w = H.itensor('wbits' + tag, ())
    H.assume(H.or_(H.eq(w, 2), H.eq(w, 4), H.eq(w, 8)))
    s['w_precision'] = w
    if kind == 'linear':
        cin, cout = H.tensor('cin' + tag, ()), H.tensor('cout' + tag, ())
        s['in_features'], s['out_features'] = cin, cout
        dims = []
    else:
        if kind == 'dw':
            cin = H.tensor('c' + tag, ())
            cout = cin
            s['groups'] = cin
        else:
            cin, cout = H.tensor('cin' + tag, ()), H.tensor('cout' + tag, ())
            s['groups'] = 1
        s['in_channels'], s['out_channels'] = cin, cout
        s['kernel_size'] = (1, 1) if kind == '1x1' else (3, 3)
        ho, wo = H.int('ho' + tag), H.int('wo' + tag)
        H.assume(H.and_(ho >= 1, wo >= 1))
        s['output_shape'] = (1, 4, ho, wo)
        dims = [ho, wo]
    H.assume(H.and_(H.ge(cin, 0), H.ge(cout, 0)))
    return s, cin, cout, dims, w


def _ne16_fn(kind):
    if kind == 'linear':
        return ne16_latency[(nn.Linear, {'in_features': 8, 'out_features': 4})]
    g = 4 if kind == 'dw' else 1
    return ne16_latency[(nn.Conv2d, {'in_channels': 4, 'out_channels': 4, 'groups': g, 'kernel_size': (3, 3)})]


def h_ne16(H, kind, vary, unit=False):
    """O1-O3 for the NE16 latency model (8-bit activations, 3x3 / 1x1 / depth-wise 3x3 / linear), one dimension varied at a time:
    description B is description A with only the varied field raised (all other fields are the same terms)"""
    fn = _ne16_fn(kind)
    one = torch.tensor(1.0)
    sA, cinA, coutA, dimsA, wA = _ne16_spec(H, kind, 'A', one)
    sB = dict(sA)
    kin, kout = ('in_features', 'out_features') if kind == 'linear' else ('in_channels', 'out_channels')
    if vary in ('cin', 'cout'):
        hi = H.tensor(vary + 'B', ())
        H.assume(H.ge(hi, cinA if vary == 'cin' else coutA))
        if kind == 'dw':
            sB[kin], sB[kout], sB['groups'] = hi, hi, hi
        else:
            sB[kin if vary == 'cin' else kout] = hi
    elif vary == 'bits':
        wB = H.itensor('wbitsB', ())
        H.assume(H.and_(H.or_(H.eq(wB, 2), H.eq(wB, 4), H.eq(wB, 8)), H.ge(wB, wA)))
        sB['w_precision'] = wB
    else:
        d = H.int(vary + 'B')
        i = 0 if vary == 'ho' else 1
        H.assume(d >= dimsA[i])
        sB['output_shape'] = (1, 4, d, dimsA[1]) if i == 0 else (1, 4, dimsA[0], d)
    label = 'ne16:monotone-in-' + vary
    if unit and kind != 'linear':
        # lemma route, step (ii): the claim at a single output position (n_spatial = 1); step (i) is h_ne16_factorisation
        sA['output_shape'] = (1, 4, 1, 1)
        sB['output_shape'] = (1, 4, 1, 1)
        label = label + '@single-output-position'
    if vary != 'bits':
        wc = torch.tensor(H.concretize(H.scalar(wA)))            # 2, 4 or 8: one path each, the bit-width becomes a constant of the formula
        sA['w_precision'] = wc
        sB['w_precision'] = wc
    fA = H.scalar(fn(sA))
    fB = H.scalar(fn(sB))
    H.observe('fA', fA)
    H.observe('fB', fB)
    H.ensure('ne16:non-negative', H.ge(fA, 0))
    H.ensure('ne16:positive-for-non-empty-layer', H.implies(H.and_(H.ge(cinA, 1), H.ge(coutA, 1)), H.gt(fA, 0)))
    H.ensure(label, H.le(fA, fB))


def h_ne16_factorisation(H, kind):
    """lemma route, step (i): latency(ho, wo, ...) == ceil(ho/3) * ceil(wo/3) * latency(1, 1, ...)  (the spatial tiling multiplies a
    per-tile latency that does not depend on the output resolution)"""
    fn = _ne16_fn(kind)
    s, cin, cout, dims, w = _ne16_spec(H, kind, '', torch.tensor(1.0))
    wc = torch.tensor(H.concretize(H.scalar(w)))
    s['w_precision'] = wc
    s1 = dict(s)
    s1['output_shape'] = (1, 4, 1, 1)
    f = H.scalar(fn(s))
    f1 = H.scalar(fn(s1))
    tiles = ((dims[0] - 1) // 3 + 1) * ((dims[1] - 1) // 3 + 1)          # ceil(ho/3) * ceil(wo/3), written as the model writes it
    H.ensure('ne16:latency-factorises-over-spatial-tiles', H.eq(f, H.mul(tiles, f1)))
    H.ensure('ne16:number-of-spatial-tiles-is-positive', H.ge(tiles, 1))


def h_ne16_linear_in_input_tiles(H, kind):
    """lemma route, step (i'): at a single output position the latency is affine in the number of 16-channel input tiles,
    latency(cin) == latency(0) + n_in(cin) * (latency(16) - latency(0)),   n_in = ceil(cin / 16) as the model writes it"""
    fn = _ne16_fn(kind)
    s, cin, cout, dims, w = _ne16_spec(H, kind, '', torch.tensor(1.0))
    s['w_precision'] = torch.tensor(H.concretize(H.scalar(w)))
    kin = 'in_features' if kind == 'linear' else 'in_channels'
    if kind != 'linear':
        s['output_shape'] = (1, 4, 1, 1)
    s0, s16 = dict(s), dict(s)
    s0[kin] = torch.tensor(0.0)
    s16[kin] = torch.tensor(16.0)
    f, f0, f16 = H.scalar(fn(s)), H.scalar(fn(s0)), H.scalar(fn(s16))
    n_in = H.scalar(((cin - 1) // 16) + 1)
    H.ensure('ne16:latency-affine-in-input-tiles', H.eq(f, H.add(f0, H.mul(n_in, H.sub(f16, f0)))))
    H.ensure('ne16:number-of-input-tiles-non-negative', H.ge(n_in, 0))


def h_ne16_cout_at_fixed_input(H, kind, part):
    """lemma route, step (ii'): with a single output position and a fixed number of input channels the only symbolic quantity is the
    number of output channels: part 'base' = latency at 0 input channels, part 'slope' = latency(16) - latency(0); both monotone"""
    fn = _ne16_fn(kind)
    s, cin, cout, dims, w = _ne16_spec(H, kind, 'A', torch.tensor(1.0))
    s['w_precision'] = torch.tensor(H.concretize(H.scalar(w)))
    kin, kout = ('in_features', 'out_features') if kind == 'linear' else ('in_channels', 'out_channels')
    if kind != 'linear':
        s['output_shape'] = (1, 4, 1, 1)
    hi = H.tensor('coutB', ())
    H.assume(H.ge(hi, cout))

    def at(c_in, c_out):
        t = dict(s)
        t[kin] = torch.tensor(c_in)
        t[kout] = c_out
        return H.scalar(fn(t))
    if part == 'base':
        a, b = at(0.0, cout), at(0.0, hi)
    else:
        a, b = H.sub(at(16.0, cout), at(0.0, cout)), H.sub(at(16.0, hi), at(0.0, hi))
    H.ensure('ne16:%s-monotone-in-cout' % part, H.le(a, b))
    H.ensure('ne16:%s-non-negative' % part, H.ge(a, 0))


def h_ne16_skeleton2(H):
    """lemma route, arithmetic skeleton: F = F0 + n*D for both descriptions, n >= 0, F0_A <= F0_B, D_A <= D_B  ==>  F_A <= F_B"""
    n, f0a, f0b, da, db, fa, fb = [H.real(x) for x in ('n', 'F0A', 'F0B', 'DA', 'DB', 'FA', 'FB')]
    H.assume(H.and_(fa == f0a + n * da, fb == f0b + n * db, n >= 0, f0a <= f0b, da <= db))
    H.ensure('ne16:monotone-in-cout-at-a-single-output-position-from-the-lemmas', fa <= fb)


def h_ne16_skeleton(H):
    """lemma route, step (iii): F_A = a*g_A, F_B = a*g_B, a >= 0, g_A <= g_B  ==>  F_A <= F_B   (pure arithmetic over opaque reals;
    each hypothesis is a discharged obligation: (i) h_ne16_factorisation, (ii) h_ne16_skeleton2 fed by h_ne16_linear_in_input_tiles and h_ne16_cout_at_fixed_input)"""
    a, gA, gB, FA, FB = H.real('a'), H.real('gA'), H.real('gB'), H.real('FA'), H.real('FB')
    H.assume(H.and_(FA == a * gA, FB == a * gB, a >= 0, gA <= gB))
    H.ensure('ne16:monotone-in-cout-from-the-two-lemmas', FA <= FB)


def h_ne16_rejects(H, kind):
    """O6: NE16 rejects activations other than 8 bit and kernels other than 3x3 / 1x1 (3x3 for depth-wise); 0-bit weights cost 0"""
    fn = _ne16_fn(kind)
    s, cin, cout, dims, w = _ne16_spec(H, kind, '', torch.tensor(1.0))
    a = H.itensor('abits', ())
    s['in_precision'] = a
    raised = False
    try:
        fn(s)
    except AssertionError:
        raised = True
    H.ensure('ne16:rejects-non-8-bit-activations', raised == (not H.eq(a, 8)) if not H.symbolic else H.iff(raised, H.not_(H.eq(a, 8))))
    if kind in ('3x3', 'dw'):
        s2, _, _, _, _ = _ne16_spec(H, kind, 'K', torch.tensor(1.0))
        kx, ky = H.int('kx'), H.int('ky')
        H.assume(H.and_(kx >= 1, kx <= 5, ky >= 1, ky <= 5))
        kx, ky = H.concretize(kx), H.concretize(ky)
        s2['kernel_size'] = (kx, ky)
        bad = False
        try:
            fn(s2)
        except AssertionError:
            bad = True
        supported = (kx == 3 and ky == 3) or (kind == '3x3' and kx == 1 and ky == 1)
        H.ensure('ne16:rejects-exactly-the-unsupported-kernels', bad == (not supported))
    s3, _, _, _, _ = _ne16_spec(H, kind, 'Z', torch.tensor(1.0))
    s3['w_precision'] = torch.tensor(0)
    H.ensure('ne16:zero-bit-weights-cost-nothing', H.eq(H.scalar(fn(s3)), 0))


HARNESSES = HARNESSES + [
    dict(name='ne16', fn='h_ne16', property='C16', functions=['plinio/cost/ne16_latency.py::<Ne16PerfModel, Ne16PerfModel_generalized and the three registered models>'],
         quick=[dict(kind=k, vary=v) for k in ('3x3', '1x1', 'dw', 'linear')
                for v in (('cin', 'cout', 'bits') + (('ho', 'wo') if k != 'linear' else ())) if v != 'cout'],
         thorough=[dict(kind=k, vary=v) for k in ('3x3', '1x1', 'dw', 'linear')
                   for v in (('cin', 'cout', 'bits') + (('ho', 'wo') if k != 'linear' else ())) if v != 'cout'], timeout=180),
    dict(name='ne16-factorisation', fn='h_ne16_factorisation', property='C16', functions=['plinio/cost/ne16_latency.py::Ne16PerfModel.latency'],
         quick=[dict(kind=k) for k in ('3x3', '1x1')], thorough=[dict(kind=k) for k in ('3x3', '1x1', 'dw')], timeout=90),
    dict(name='ne16-skeleton', fn='h_ne16_skeleton', property='C16', functions=[], quick=[{}], thorough=[{}], crosscheck=0),
    dict(name='ne16-affine-in-input-tiles', fn='h_ne16_linear_in_input_tiles', property='C16', functions=['plinio/cost/ne16_latency.py::Ne16PerfModel.latency'],
         quick=[dict(kind=k) for k in ('3x3', '1x1', 'linear')], thorough=[dict(kind=k) for k in ('3x3', '1x1', 'linear')], timeout=90),
    dict(name='ne16-cout-at-fixed-input', fn='h_ne16_cout_at_fixed_input', property='C16', functions=['plinio/cost/ne16_latency.py::Ne16PerfModel.latency'],
         quick=[dict(kind=k, part=p) for k in ('3x3', '1x1', 'linear') for p in ('base', 'slope')],
         thorough=[dict(kind=k, part=p) for k in ('3x3', '1x1', 'linear') for p in ('base', 'slope')], timeout=90),
    dict(name='ne16-skeleton2', fn='h_ne16_skeleton2', property='C16', functions=[], quick=[{}], thorough=[{}], crosscheck=0),
    dict(name='ne16-rejects', fn='h_ne16_rejects', property='C16', functions=['plinio/cost/ne16_latency.py::_ne16_latency_conv2d_generic'],
         quick=[dict(kind=k) for k in ('3x3', '1x1', 'dw', 'linear')], thorough=[dict(kind=k) for k in ('3x3', '1x1', 'dw', 'linear')]),
]


# ------------------------------------------------------------------------------------------------- DIANA
def _diana_spec(H, tag, wbits, linear):
    s = {'w_precision': wbits, 'a_precision': 8}
    cin, cout = H.tensor('cin' + tag, ()), H.tensor('cout' + tag, ())
    H.assume(H.and_(H.ge(cin, 0), H.ge(cout, 0)))
    if linear:
        s['in_features'], s['out_features'] = cin, cout
        s['output_shape'] = (1, 4)
        return s, cin, cout, []
    s['in_channels'], s['out_channels'], s['groups'] = cin, cout, 1
    kx, ky, ox, oy = H.int('kx' + tag), H.int('ky' + tag), H.int('ox' + tag), H.int('oy' + tag)
    for v in (kx, ky, ox, oy):
        H.assume(v >= 1)
    s['kernel_size'] = (kx, ky)
    s['output_shape'] = (1, 4, ox, oy)
    return s, cin, cout, [kx, ky, ox, oy]


def h_diana(H, wbits, linear, vary):
    """O1-O3 for the DIANA latency model: w = 8 -> digital accelerator, w = 2 -> analog accelerator (8-bit activations)"""
    fn = diana_latency[(nn.Linear, {'in_features': 4, 'out_features': 4})] if linear else \
        diana_latency[(nn.Conv2d, {'in_channels': 4, 'out_channels': 4, 'groups': 1, 'kernel_size': (3, 3)})]
    sA, cinA, coutA, dA = _diana_spec(H, 'A', wbits, linear)
    sB = dict(sA)
    kin, kout = ('in_features', 'out_features') if linear else ('in_channels', 'out_channels')
    if vary in ('cin', 'cout'):
        hi = H.tensor(vary + 'B', ())
        H.assume(H.ge(hi, cinA if vary == 'cin' else coutA))
        sB[kin if vary == 'cin' else kout] = hi
    else:
        i = ('kx', 'ky', 'ox', 'oy').index(vary)
        d = H.int(vary + 'B')
        H.assume(d >= dA[i])
        dims = list(dA)
        dims[i] = d
        sB['kernel_size'] = (dims[0], dims[1])
        sB['output_shape'] = (1, 4, dims[2], dims[3])
    fA, fB = H.scalar(fn(sA)), H.scalar(fn(sB))
    H.observe('fA', fA)
    H.observe('fB', fB)
    H.ensure('diana:non-negative', H.ge(fA, 0))
    H.ensure('diana:positive-for-non-empty-layer', H.implies(H.and_(H.ge(cinA, 1), H.ge(coutA, 1)), H.gt(fA, 0)))
    H.ensure('diana:monotone-in-' + vary, H.le(fA, fB))


def h_diana_rejects(H):
    """O6: any precision pair other than (w, a) in {(2, 8), (8, 8)} is rejected; the analog accelerator rejects grouped convolutions"""
    fn = diana_latency[(nn.Conv2d, {'in_channels': 4, 'out_channels': 4, 'groups': 1, 'kernel_size': (3, 3)})]
    w, a = H.int('w'), H.int('a')
    s = {'w_precision': w, 'a_precision': a, 'in_channels': torch.tensor(4.0), 'out_channels': torch.tensor(4.0), 'groups': 1,
         'kernel_size': (3, 3), 'output_shape': (1, 4, 2, 2)}
    raised = False
    try:
        fn(s)
    except ValueError:
        raised = True
    H.ensure('diana:rejects-unsupported-precisions', H.iff(raised, H.not_(H.and_(a == 8, H.or_(w == 2, w == 8)))))
    s2 = dict(s)
    s2['w_precision'], s2['a_precision'], s2['groups'] = 2, 8, 4
    bad = False
    try:
        fn(s2)
    except ValueError:
        bad = True
    H.ensure('diana:analog-accelerator-rejects-grouped-convolutions', bad)


def h_gate_ste(H):
    x = H.tensor('ch', (2,))
    th = 1.0
    y = GateSTE.apply(x, th)
    H.ensure('GateSTE:one-at-or-above-threshold-else-zero', H.and_(*[H.eq(H.elements(y)[i], H.ite(H.ge(H.elements(x)[i], th), 1, 0)) for i in range(2)]))


HARNESSES = HARNESSES + [
    dict(name='diana', fn='h_diana', property='C16',
         functions=['plinio/cost/diana_latency.py::_diana_latency_conv2d_generic', 'plinio/cost/diana_latency.py::_diana_latency_linear',
                    'plinio/cost/diana_latency.py::_analog_cycles', 'plinio/cost/diana_latency.py::_digital_cycles',
                    'plinio/cost/diana_latency.py::ComputeOxUnrollSTE.forward', 'plinio/cost/diana_latency.py::GateSTE.forward'],
         quick=[dict(wbits=w, linear=False, vary=v) for w in (8, 2) for v in ('cin', 'cout', 'kx', 'ky', 'ox', 'oy')] +
               [dict(wbits=w, linear=True, vary=v) for w in (8, 2) for v in ('cin', 'cout')],
         thorough=[dict(wbits=w, linear=False, vary=v) for w in (8, 2) for v in ('cin', 'cout', 'kx', 'ky', 'ox', 'oy')] +
                  [dict(wbits=w, linear=True, vary=v) for w in (8, 2) for v in ('cin', 'cout')], timeout=60),
    dict(name='diana-rejects', fn='h_diana_rejects', property='C16', functions=['plinio/cost/diana_latency.py::_diana_latency_conv2d_generic'],
         quick=[{}], thorough=[{}]),
    dict(name='gate-ste', fn='h_gate_ste', property='C16', functions=['plinio/cost/diana_latency.py::GateSTE.forward'], quick=[{}], thorough=[{}]),
]
