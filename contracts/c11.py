"""C11 - trainability controls do what they say under every sequence of calls.

Functions under contract: plinio/methods/dnas_base/dnas.py DNAS.train_nas_only/train_net_only/train_net_and_nas/nas_parameters/
net_parameters; named_nas_parameters/named_net_parameters of PIT, MPS, SuperNet and of PITConv1d/PITConv2d/PITLinear, MPSConv2d/
MPSLinear/MPSIdentity, SuperNetCombiner; PIT.train_features/train_rf/train_dilation/discrete_cost setters and the layer setters they
call; `trainable` getters/setters of the six PIT maskers; MPSBaseQtz.update_softmax_options and the delegating
update_softmax_options of the MPS layers, MPS and SuperNet; the tails of PIT.__init__/MPS.__init__/SuperNet.__init__.

History quantifier by induction: the trainability state (requires_grad of every parameter, sampler options) before an operation is
ARBITRARY (symbolic booleans / reals) subject to the invariant "frozen masks are not trainable"; every operation is shown to have
exactly its documented effect and to re-establish the invariant.  The model structure is concrete: one wrapper per method holding
every kind of component (shared masker / quantizer, frozen maskers, plain layers).  The torch.fx conversion (`convert`) is replaced
by an assumed contract that returns this structure (H.patch) - the constructors' own code is executed.
"""
import torch
import torch.nn as nn
from plinio.methods.pit.pit import PIT
from plinio.methods.pit.nn.conv1d import PITConv1d
from plinio.methods.pit.nn.conv2d import PITConv2d
from plinio.methods.pit.nn.linear import PITLinear
from plinio.methods.pit.nn.features_masker import PITFeaturesMasker, PITFrozenFeaturesMasker
from plinio.methods.pit.nn.timestep_masker import PITTimestepMasker, PITFrozenTimestepMasker
from plinio.methods.pit.nn.dilation_masker import PITDilationMasker, PITFrozenDilationMasker
from plinio.methods.mps.mps import MPS
from plinio.methods.mps.nn.qtz import MPSPerLayerQtz, MPSPerChannelQtz, MPSBiasQtz
from plinio.methods.mps.nn.conv2d import MPSConv2d
from plinio.methods.mps.nn.linear import MPSLinear
from plinio.methods.mps.nn.identity import MPSIdentity
from plinio.methods.mps.quant.quantizers import PACTAct, MinMaxWeight, QuantizerBias
from plinio.methods.supernet.supernet import SuperNet
from plinio.methods.supernet.nn.combiner import SuperNetCombiner


def _has(H, xs, p):
    return any(H.same_object(x, p) for x in xs)


def _no_duplicates(H, xs):
    return all(not H.same_object(xs[i], xs[j]) for i in range(len(xs)) for j in range(i))


def _same_set(H, xs, ys):
    return all(_has(H, ys, x) for x in xs) and all(_has(H, xs, y) for y in ys)


# ------------------------------------------------------------------------------------------------- PIT
def _pit(H):
    conv_a, conv_b, conv_c = nn.Conv1d(2, 3, 3), nn.Conv1d(3, 3, 3, stride=2), nn.Conv2d(1, 2, 3)
    lin = nn.Linear(3, 2)
    shared = PITFeaturesMasker(3)
    la = PITConv1d(conv_a, shared, PITTimestepMasker(3), PITDilationMasker(3))
    lb = PITConv1d(conv_b, shared, PITFrozenTimestepMasker(3), PITFrozenDilationMasker(3))       # strided: frozen rf / dilation
    lc = PITConv2d(conv_c, PITFeaturesMasker(2))
    ld = PITLinear(lin, PITFrozenFeaturesMasker(2))                                              # output layer: frozen width
    plain = nn.Conv1d(3, 3, 1)
    seed = nn.Sequential(la, lb, lc, plain, ld)
    leaf = [('0', None, la), ('1', None, lb), ('2', None, lc), ('3', None, plain), ('4', None, ld)]
    H.patch('plinio.methods.pit.pit', 'convert', lambda *a, **k: (seed, leaf, list(leaf)))
    user = nn.Sequential(nn.Conv1d(2, 3, 3))
    model = PIT(user, input_example=torch.zeros(1, 2, 8))
    nas = [shared.alpha, la.timestep_masker.beta, la.dilation_masker.gamma, lc.out_features_masker.alpha]
    frozen = [lb.timestep_masker.beta, lb.dilation_masker.gamma, ld.out_features_masker.alpha]
    frozen_maskers = [lb.timestep_masker, lb.dilation_masker, ld.out_features_masker]
    groups = {'features': [shared.alpha, lc.out_features_masker.alpha], 'rf': [la.timestep_masker.beta], 'dilation': [la.dilation_masker.gamma]}
    return model, nas, frozen, frozen_maskers, groups, [la, lb, lc, ld]


def _arbitrary_flags(H, params, frozen):
    """any trainability state a history of calls can have produced, subject to the invariant on frozen masks"""
    pre = []
    for i, p in enumerate(params):
        b = H.bool('requires_grad[%d]' % i)
        H.set_requires_grad(p, b)
        pre.append(b)
    for f in frozen:
        H.assume(H.not_(H.get_requires_grad(f)))
    return pre


def h_pit_partition(H):
    model, nas, frozen, _, _, _ = _pit(H)
    allp = [p for _, p in model.named_parameters()]
    got_nas = [p for _, p in model.named_nas_parameters()]
    got_net = [p for _, p in model.named_net_parameters()]
    H.ensure('partition:nas-parameters-listed-once', _no_duplicates(H, got_nas))
    H.ensure('partition:net-parameters-listed-once', _no_duplicates(H, got_net))
    H.ensure('partition:nas-are-the-architectural-masks', _same_set(H, got_nas, nas))
    H.ensure('partition:nas-and-net-are-disjoint', all(not _has(H, got_net, p) for p in got_nas))
    H.ensure('partition:nas-and-net-cover-all-parameters', _same_set(H, got_nas + got_net, allp))
    H.ensure('partition:frozen-masks-are-not-architectural-parameters', all(not _has(H, got_nas, f) for f in frozen))
    names = [n for n, _ in model.named_nas_parameters()] + [n for n, _ in model.named_net_parameters()]
    H.ensure('partition:names-unique', len(set(names)) == len(names))
    H.ensure('partition:nas_parameters-matches-named', _same_set(H, list(model.nas_parameters()), got_nas) and _same_set(H, list(model.net_parameters()), got_net))


def h_pit_op(H, op, value, before=None):
    model, nas, frozen, frozen_maskers, groups, layers = _pit(H)
    allp = [p for _, p in model.named_parameters()]
    net = [p for p in allp if not _has(H, nas, p)]
    if before is not None:
        # history: one of the three helpers ran earlier, then anything (the switches, the user) changed the flags arbitrarily - whatever the helper remembered
        # of its own last request must not matter for the next call
        getattr(model, before)()
    pre = _arbitrary_flags(H, allp, frozen)
    dc_pre = [l.discrete_cost for l in layers]
    if op == 'train_nas_only':
        model.train_nas_only()
        expect = lambda p, old: _has(H, nas, p)
    elif op == 'train_net_only':
        model.train_net_only()
        expect = lambda p, old: not _has(H, nas, p)
    elif op == 'train_net_and_nas':
        model.train_net_and_nas()
        expect = lambda p, old: True
    elif op in ('train_features', 'train_rf', 'train_dilation'):
        if op == 'train_features':
            model.train_features = value
        elif op == 'train_rf':
            model.train_rf = value
        else:
            model.train_dilation = value
        grp = groups[op[len('train_'):]]
        expect = lambda p, old: (value if _has(H, grp, p) else old)
        H.ensure('switch:getter-reports-the-value', getattr(model, op) == value)
    else:
        model.discrete_cost = value
        expect = lambda p, old: old
        H.ensure('discrete_cost:set-on-every-searchable-layer', all(l.discrete_cost == value for l in layers) and model.discrete_cost == value)
    for p, old in zip(allp, pre):
        H.ensure('%s:exact-effect-on-requires_grad' % op, H.iff(H.get_requires_grad(p), expect(p, old)))
    for f, m in zip(frozen, frozen_maskers):
        H.ensure('frozen:mask-never-trainable', H.and_(H.not_(H.get_requires_grad(f)), H.not_(m.trainable)))
        H.ensure('frozen:mask-is-not-a-parameter', not _has(H, [p for _, p in model.named_parameters()], f))
    if op != 'discrete_cost':
        H.ensure('%s:leaves-discrete_cost-alone' % op, all(l.discrete_cost == d for l, d in zip(layers, dc_pre)))


def h_frozen_theta(H):
    """a frozen width mask never reads its (untrainable) tensor: theta is the constant all-ones vector whatever alpha holds"""
    m = PITFrozenFeaturesMasker(3)
    H.set_(m.alpha, H.tensor('alpha', (3,)))
    H.ensure('frozen-features:theta-is-all-ones', H.eq(m.theta, H.const_tensor([1.0, 1.0, 1.0])))
    m.trainable = True
    H.ensure('frozen-features:trainable-setter-ignored', H.and_(H.not_(m.trainable), H.not_(H.get_requires_grad(m.alpha))))
    for cls in (PITFrozenTimestepMasker, PITFrozenDilationMasker):
        t = cls(4)
        t.trainable = True
        H.ensure('frozen-time:trainable-setter-ignored', H.not_(t.trainable))
        H.ensure('frozen-time:no-parameters', len(list(t.parameters())) == 0)


# ------------------------------------------------------------------------------------------------- MPS
def _mps(H, per_channel, construct_kwargs):
    act_shared = MPSPerLayerQtz((2, 4, 8), PACTAct)                     # one activation quantizer shared by two layers
    mk_w = (lambda c: MPSPerChannelQtz((0, 4, 8), MinMaxWeight, {'cout': c})) if per_channel else \
           (lambda c: MPSPerLayerQtz((2, 4, 8), MinMaxWeight, {'cout': c}))
    inp = MPSIdentity(MPSPerLayerQtz((8,), PACTAct))
    l1 = MPSConv2d(nn.Conv2d(1, 2, 1), act_shared, mk_w(2), MPSBiasQtz(QuantizerBias, {'precision': 32, 'cout': 2}))
    l2 = MPSConv2d(nn.Conv2d(2, 2, 1), act_shared, mk_w(2), MPSBiasQtz(QuantizerBias, {'precision': 32, 'cout': 2}))
    l3 = MPSLinear(nn.Linear(2, 2), MPSPerLayerQtz((4, 8), PACTAct), mk_w(2), MPSBiasQtz(QuantizerBias, {'precision': 32, 'cout': 2}))
    l1.in_mps_quantizer = inp.out_mps_quantizer
    l2.in_mps_quantizer = act_shared
    l3.in_mps_quantizer = act_shared
    plain = nn.ReLU()
    seed = nn.Sequential(inp, l1, l2, plain, l3)
    leaf = [('0', None, inp), ('1', None, l1), ('2', None, l2), ('3', None, plain), ('4', None, l3)]
    H.patch('plinio.methods.mps.mps', 'convert', lambda *a, **k: (seed, leaf, list(leaf)))
    model = MPS(nn.Sequential(nn.Conv2d(1, 2, 1)), input_example=torch.zeros(1, 1, 2, 2), **construct_kwargs)
    qtzs = [inp.out_mps_quantizer, act_shared, l1.w_mps_quantizer, l2.w_mps_quantizer, l3.out_mps_quantizer, l3.w_mps_quantizer]
    return model, qtzs, [inp, l1, l2, l3]


def h_mps_partition(H, per_channel):
    model, qtzs, layers = _mps(H, per_channel, {})
    allp = [p for _, p in model.named_parameters()]
    got_nas = [p for _, p in model.named_nas_parameters()]
    got_net = [p for _, p in model.named_net_parameters()]
    H.ensure('partition:nas-parameters-listed-once', _no_duplicates(H, got_nas))
    H.ensure('partition:net-parameters-listed-once', _no_duplicates(H, got_net))
    H.ensure('partition:every-selection-coefficient-is-architectural', all(_has(H, got_nas, q.alpha) for q in qtzs))
    H.ensure('partition:weights-and-biases-are-network-parameters',
             all(_has(H, got_net, l.weight) and _has(H, got_net, l.bias) for l in layers[1:]))
    H.ensure('partition:nas-and-net-are-disjoint', all(not _has(H, got_net, p) for p in got_nas))
    H.ensure('partition:nas-and-net-cover-all-parameters', _same_set(H, got_nas + got_net, allp))
    pre = _arbitrary_flags(H, allp, [])
    model.train_nas_only()
    H.ensure('train_nas_only:exact-effect', H.and_(*[H.iff(H.get_requires_grad(p), _has(H, got_nas, p)) for p in allp]))
    model.train_net_only()
    H.ensure('train_net_only:exact-effect', H.and_(*[H.iff(H.get_requires_grad(p), not _has(H, got_nas, p)) for p in allp]))
    model.train_net_and_nas()
    H.ensure('train_net_and_nas:exact-effect', H.and_(*[H.get_requires_grad(p) for p in allp]))


def _sampler_kind(q):
    if q.sample_alpha == q.sample_alpha_none:
        return 'none'
    if q.sample_alpha == q.sample_alpha_gs:
        return 'gumbel'
    if q.sample_alpha == q.sample_alpha_sm:
        return 'softmax'
    return 'other'


def h_qtz_options(H, hard0, gumbel0, disabled0, which, newval):
    """one quantizer: updating a single option leaves the unspecified ones as they were (from every reachable option state)"""
    q = MPSPerLayerQtz((2, 4, 8), PACTAct, softmax_temperature=1.0, hard_softmax=hard0, gumbel_softmax=gumbel0, disable_sampling=disabled0)
    t0 = H.real('temperature0')
    H.assume(H.and_(t0 >= 0.05, t0 <= 20))
    q.update_softmax_options(temperature=t0)
    kind0 = 'none' if disabled0 else ('gumbel' if gumbel0 else 'softmax')
    H.ensure('options:constructor-establishes-the-requested-sampler', _sampler_kind(q) == kind0 and q.hard_softmax == hard0)
    if which == 'temperature':
        t1 = H.real('temperature1')
        H.assume(H.and_(t1 >= 0.05, t1 <= 20))
        q.update_softmax_options(temperature=t1)
        H.ensure('options:temperature-set', H.eq(H.scalar(q.temperature), t1))
        H.ensure('options:temperature-update-keeps-sampler-and-hard-flag', _sampler_kind(q) == kind0 and q.hard_softmax == hard0)
    elif which == 'hard':
        q.update_softmax_options(hard=newval)
        H.ensure('options:hard-set', q.hard_softmax == newval)
        H.ensure('options:hard-update-keeps-sampler-and-temperature', _sampler_kind(q) == kind0 and H.eq(H.scalar(q.temperature), t0))
    elif which == 'gumbel':
        q.update_softmax_options(gumbel=newval)
        H.ensure('options:gumbel-update-selects-sampler', _sampler_kind(q) == ('none' if disabled0 else ('gumbel' if newval else 'softmax')))
        H.ensure('options:gumbel-update-keeps-hard-flag-and-temperature', q.hard_softmax == hard0 and H.eq(H.scalar(q.temperature), t0))
    else:
        q.update_softmax_options(disable_sampling=newval)
        H.ensure('options:disable-update-selects-sampler', _sampler_kind(q) == ('none' if newval else ('gumbel' if gumbel0 else 'softmax')))
        H.ensure('options:disable-update-keeps-hard-flag-and-temperature', q.hard_softmax == hard0 and H.eq(H.scalar(q.temperature), t0))


def h_mps_options(H, per_channel, hard0, gumbel0, disabled0, which, newval):
    """the wrapper reaches every quantizer of every searchable layer and forwards exactly the given options"""
    model, qtzs, layers = _mps(H, per_channel, dict(temperature=2.0, hard_softmax=hard0, gumbel_softmax=gumbel0, disable_sampling=disabled0))
    kind0 = 'none' if disabled0 else ('gumbel' if gumbel0 else 'softmax')
    H.ensure('mps-options:constructor-reaches-every-quantizer',
             all(_sampler_kind(q) == kind0 and q.hard_softmax == hard0 and H.eq(H.scalar(q.temperature), 2.0) for q in qtzs))
    if which == 'temperature':
        t1 = H.real('temperature1')
        H.assume(H.and_(t1 >= 0.05, t1 <= 20))
        model.update_softmax_options(temperature=t1)
        H.ensure('mps-options:temperature-only', H.and_(*[H.and_(_sampler_kind(q) == kind0, q.hard_softmax == hard0, H.eq(H.scalar(q.temperature), t1)) for q in qtzs]))
    elif which == 'hard':
        model.update_softmax_options(hard=newval)
        H.ensure('mps-options:hard-only', all(_sampler_kind(q) == kind0 and q.hard_softmax == newval and H.eq(H.scalar(q.temperature), 2.0) for q in qtzs))
    elif which == 'gumbel':
        model.update_softmax_options(gumbel=newval)
        k = 'none' if disabled0 else ('gumbel' if newval else 'softmax')
        H.ensure('mps-options:gumbel-only', all(_sampler_kind(q) == k and q.hard_softmax == hard0 and H.eq(H.scalar(q.temperature), 2.0) for q in qtzs))
    else:
        model.update_softmax_options(disable_sampling=newval)
        k = 'none' if newval else ('gumbel' if gumbel0 else 'softmax')
        H.ensure('mps-options:disable-only', all(_sampler_kind(q) == k and q.hard_softmax == hard0 and H.eq(H.scalar(q.temperature), 2.0) for q in qtzs))


# ------------------------------------------------------------------------------------------------- SuperNet
def _supernet(H):
    c1, c2 = SuperNetCombiner(3, False, False), SuperNetCombiner(2, True, True)
    b1, b2 = nn.Conv2d(1, 2, 3), nn.Linear(2, 2)
    seed = nn.Sequential(b1, c1, b2, c2)
    leaf = [('0', None, b1), ('1', None, c1), ('2', None, b2), ('3', None, c2)]
    H.patch('plinio.methods.supernet.supernet', 'convert', lambda *a, **k: (seed, leaf, list(leaf)))
    model = SuperNet(nn.Sequential(nn.Conv2d(1, 2, 3)), input_example=torch.zeros(1, 1, 4, 4))
    return model, [c1, c2], [b1, b2]


def h_supernet(H, which, newval):
    model, combs, fixed = _supernet(H)
    allp = [p for _, p in model.named_parameters()]
    got_nas = [p for _, p in model.named_nas_parameters()]
    got_net = [p for _, p in model.named_net_parameters()]
    H.ensure('partition:nas-are-the-selection-coefficients', _same_set(H, got_nas, [c.alpha for c in combs]) and _no_duplicates(H, got_nas))
    H.ensure('partition:nas-and-net-are-disjoint', all(not _has(H, got_net, p) for p in got_nas))
    H.ensure('partition:nas-and-net-cover-all-parameters', _same_set(H, got_nas + got_net, allp) and _no_duplicates(H, got_net))
    pre = _arbitrary_flags(H, allp, [])
    model.train_nas_only()
    H.ensure('train_nas_only:exact-effect', H.and_(*[H.iff(H.get_requires_grad(p), _has(H, got_nas, p)) for p in allp]))
    model.train_net_only()
    H.ensure('train_net_only:exact-effect', H.and_(*[H.iff(H.get_requires_grad(p), not _has(H, got_nas, p)) for p in allp]))
    model.train_net_and_nas()
    H.ensure('train_net_and_nas:exact-effect', H.and_(*[H.get_requires_grad(p) for p in allp]))
    t0 = [c.softmax_temperature for c in combs]
    h0 = [c.hard_softmax for c in combs]
    s0 = [c.sample_alpha == c.sample_alpha_gs for c in combs]
    if which == 'temperature':
        t1 = H.real('temperature1')
        model.update_softmax_options(temperature=t1)
        H.ensure('supernet-options:temperature-only', H.and_(*[H.and_(H.eq(c.softmax_temperature, t1), c.hard_softmax == h) for c, h in zip(combs, h0)]))
    else:
        model.update_softmax_options(hard=newval)
        H.ensure('supernet-options:hard-only', all(c.hard_softmax == newval and c.softmax_temperature == t for c, t in zip(combs, t0)))
    H.ensure('supernet-options:sampler-choice-unchanged', all((c.sample_alpha == c.sample_alpha_gs) == s for c, s in zip(combs, s0)))


PROPERTY = {
    'C11': dict(
        level='proof',
        explanation='exact-effect post-conditions of every trainability control from an ARBITRARY previous state (symbolic requires_grad flags / '
                    'option values) plus preservation of the frozen-mask invariant: induction over all call sequences. Model structure is '
                    'concrete (one representative wrapper per method with shared, frozen and plain components).',
        not_decided=['"never receives a gradient" beyond what follows from requires_grad = False, the frozen masks not being parameters and '
                     'PITFrozenFeaturesMasker.theta not reading its tensor (autograd itself is trusted)',
                     'models with other component mixes than the representative wrappers and the enumerated whole models of contracts/whole_pit.py / whole_mps.py (structure is not quantified)'],
        trusted=['nn.Module parameter/buffer/sub-module registration and named_parameters() order/dedup as specified in pyvc/torchlib.py',
                 'assumed contract on convert() in the call-sequence harnesses (returns the seed module and the two leaf-module lists); the whole-model harnesses run the real convert()'],
        assumptions=[],
    ),
}

_B = (True, False)
_P = 'plinio/methods/'
_opts = [dict(hard0=h, gumbel0=g, disabled0=d, which=w, newval=v) for h in _B for g in _B for d in _B
         for w, vs in (('temperature', (None,)), ('hard', _B), ('gumbel', _B), ('disable', _B)) for v in vs]
HARNESSES = [
    dict(name='pit-partition', fn='h_pit_partition', property='C11',
         functions=[_P + 'pit/pit.py::PIT.named_nas_parameters', _P + 'pit/pit.py::PIT.named_net_parameters', _P + 'pit/pit.py::PIT.__init__',
                    _P + 'dnas_base/dnas.py::DNAS.nas_parameters', _P + 'dnas_base/dnas.py::DNAS.net_parameters',
                    _P + 'pit/nn/conv1d.py::PITConv1d.named_nas_parameters', _P + 'pit/nn/conv2d.py::PITConv2d.named_nas_parameters',
                    _P + 'pit/nn/linear.py::PITLinear.named_nas_parameters'], quick=[{}], thorough=[{}]),
    dict(name='pit-op', fn='h_pit_op', property='C11',
         functions=[_P + 'dnas_base/dnas.py::DNAS.train_nas_only', _P + 'dnas_base/dnas.py::DNAS.train_net_only', _P + 'dnas_base/dnas.py::DNAS.train_net_and_nas',
                    _P + 'pit/pit.py::PIT.train_features', _P + 'pit/pit.py::PIT.train_rf', _P + 'pit/pit.py::PIT.train_dilation', _P + 'pit/pit.py::PIT.discrete_cost',
                    _P + 'pit/nn/features_masker.py::PITFeaturesMasker.trainable', _P + 'pit/nn/features_masker.py::PITFrozenFeaturesMasker.trainable',
                    _P + 'pit/nn/timestep_masker.py::PITTimestepMasker.trainable', _P + 'pit/nn/timestep_masker.py::PITFrozenTimestepMasker.trainable',
                    _P + 'pit/nn/dilation_masker.py::PITDilationMasker.trainable', _P + 'pit/nn/dilation_masker.py::PITFrozenDilationMasker.trainable'],
         quick=[dict(op=o, value=None) for o in ('train_nas_only', 'train_net_only', 'train_net_and_nas')] +
               [dict(op=o, value=None, before=b) for o in ('train_nas_only', 'train_net_only', 'train_net_and_nas') for b in ('train_nas_only', 'train_net_only', 'train_net_and_nas')] +
               [dict(op=o, value=v) for o in ('train_features', 'train_rf', 'train_dilation', 'discrete_cost') for v in _B],
         thorough=[dict(op=o, value=None) for o in ('train_nas_only', 'train_net_only', 'train_net_and_nas')] +
                  [dict(op=o, value=v) for o in ('train_features', 'train_rf', 'train_dilation', 'discrete_cost') for v in _B]),
    dict(name='frozen-theta', fn='h_frozen_theta', property='C11',
         functions=[_P + 'pit/nn/features_masker.py::PITFrozenFeaturesMasker.theta', _P + 'pit/nn/features_masker.py::PITFrozenFeaturesMasker.__init__',
                    _P + 'pit/nn/timestep_masker.py::PITFrozenTimestepMasker.__init__', _P + 'pit/nn/dilation_masker.py::PITFrozenDilationMasker.__init__'],
         quick=[{}], thorough=[{}]),
    dict(name='mps-partition', fn='h_mps_partition', property='C11',
         functions=[_P + 'mps/mps.py::MPS.named_nas_parameters', _P + 'mps/mps.py::MPS.named_net_parameters', _P + 'mps/mps.py::MPS.__init__',
                    _P + 'mps/nn/conv2d.py::MPSConv2d.named_nas_parameters', _P + 'mps/nn/linear.py::MPSLinear.named_nas_parameters',
                    _P + 'mps/nn/identity.py::MPSIdentity.named_nas_parameters'],
         quick=[dict(per_channel=False), dict(per_channel=True)], thorough=[dict(per_channel=False), dict(per_channel=True)]),
    dict(name='qtz-options', fn='h_qtz_options', property='C11', functions=[_P + 'mps/nn/qtz.py::MPSBaseQtz.update_softmax_options'],
         quick=_opts, thorough=_opts),
    dict(name='mps-options', fn='h_mps_options', property='C11',
         functions=[_P + 'mps/mps.py::MPS.update_softmax_options', _P + 'mps/nn/conv2d.py::MPSConv2d.update_softmax_options',
                    _P + 'mps/nn/linear.py::MPSLinear.update_softmax_options', _P + 'mps/nn/identity.py::MPSIdentity.update_softmax_options'],
         quick=[dict(per_channel=False, **o) for o in _opts if o['hard0']] + [dict(per_channel=True, **o) for o in _opts if not o['hard0'] and o['gumbel0']],
         thorough=[dict(per_channel=pc, **o) for pc in _B for o in _opts]),
    dict(name='supernet', fn='h_supernet', property='C11',
         functions=[_P + 'supernet/supernet.py::SuperNet.named_nas_parameters', _P + 'supernet/supernet.py::SuperNet.named_net_parameters',
                    _P + 'supernet/supernet.py::SuperNet.update_softmax_options', _P + 'supernet/nn/combiner.py::SuperNetCombiner.named_nas_parameters'],
         quick=[dict(which='temperature', newval=None), dict(which='hard', newval=True), dict(which='hard', newval=False)],
         thorough=[dict(which='temperature', newval=None), dict(which='hard', newval=True), dict(which='hard', newval=False)]),
]
