"""Whole-model PIT clauses on ENUMERATED small architectures, with the complete conversion pipeline under contract
(serves C07, C01, C09, C08, C11, C18 - bounded in topology, never counted as a proof over all architectures).

Functions under contract (executed from the repository source, nothing patched): plinio/methods/pit/pit.py PIT.__init__ / export / forward;
plinio/methods/pit/graph.py convert, PITTracer.is_leaf_module, convert_layers, autoimport_node, export_node, build_shared_features_map,
fuse_pit_modules, remove_bn_inplace, register_input_features, pit_features_calc; plinio/graph/annotation.py add_node_properties,
add_features_calculator, associate_input_features, clean_up_propagated_shapes; plinio/graph/inspection.py (the is_* classifiers);
plinio/graph/transformation.py fuse_consecutive_layers; the autoimport / export methods of the PIT layers.
Assumed library contracts: torch.fx symbolic tracing, GraphModule and ShapeProp as specified in pyvc/fxtrace.py (the traced graph,
the module table and every annotation observed below are compared with the real torch.fx by the cross-check on every run).
All weights, BatchNorm statistics, mask parameters and the input are symbolic; the ARCHITECTURES are enumerated.
"""
import torch
import torch.nn as nn
import torch.nn.functional as F
from torch.fx.passes.shape_prop import ShapeProp
from plinio.cost import ops, params
from plinio.methods.pit.pit import PIT
from plinio.methods.pit.nn.module import PITModule
from plinio.methods.pit.nn.conv1d import PITConv1d
from plinio.methods.pit.nn.features_masker import PITFeaturesMasker
from plinio.methods.pit.nn.timestep_masker import PITTimestepMasker
from plinio.methods.pit.nn.dilation_masker import PITDilationMasker


class Chain(nn.Module):
    """conv -> bn -> relu -> conv -> flatten -> linear"""
    def __init__(self):
        super().__init__()
        self.c0 = nn.Conv1d(2, 3, 2)
        self.bn = nn.BatchNorm1d(3)
        self.c1 = nn.Conv1d(3, 2, 1)
        self.fc = nn.Linear(4, 2)

    def forward(self, x):
        y = F.relu(self.bn(self.c0(x)))
        y = self.c1(y)
        y = y.flatten(1)
        return self.fc(y)


class Residual(nn.Module):
    """two convolutions whose outputs are summed must keep the same channels; the sum feeds the head"""
    def __init__(self):
        super().__init__()
        self.c0 = nn.Conv1d(2, 2, 1)
        self.c1 = nn.Conv1d(2, 2, 1)
        self.head = nn.Conv1d(2, 1, 1)

    def forward(self, x):
        a = self.c0(x)
        b = self.c1(a)
        return self.head(a + b)


class ResidualInput(nn.Module):
    """a convolution summed with the network input is tied to the input width"""
    def __init__(self):
        super().__init__()
        self.c0 = nn.Conv1d(2, 2, 1)
        self.head = nn.Conv1d(2, 1, 1)

    def forward(self, x):
        return self.head(self.c0(x) + x)


class Concat(nn.Module):
    """channel concatenation of two searchable layers"""
    def __init__(self):
        super().__init__()
        self.c0 = nn.Conv1d(2, 2, 1)
        self.c1 = nn.Conv1d(2, 2, 1)
        self.head = nn.Conv1d(4, 1, 1)

    def forward(self, x):
        return self.head(torch.cat((self.c0(x), self.c1(x)), 1))


class Depthwise2d(nn.Module):
    """conv2d -> depthwise conv2d -> pool -> flatten -> linear: the depthwise layer follows the width of its producer"""
    def __init__(self):
        super().__init__()
        self.c0 = nn.Conv2d(1, 2, 1)
        self.dw = nn.Conv2d(2, 2, 2, groups=2)
        self.pool = nn.AdaptiveAvgPool2d(1)
        self.fc = nn.Linear(2, 2)

    def forward(self, x):
        y = self.pool(self.dw(self.c0(x)))
        return self.fc(torch.flatten(y, 1))


class Temporal(nn.Module):
    """causally padded temporal convolution (receptive field and dilation are searchable) between two pointwise layers"""
    def __init__(self):
        super().__init__()
        self.c0 = nn.Conv1d(1, 2, 1)
        self.pad = nn.ConstantPad1d((2, 0), 0)
        self.tc = nn.Conv1d(2, 2, 3)
        self.head = nn.Conv1d(2, 1, 1)

    def forward(self, x):
        return self.head(self.tc(self.pad(self.c0(x))))


class ConcatFixed(nn.Module):
    """channel concatenation of two layers the user excluded from the search (fixed widths 2 and 3)"""
    def __init__(self):
        super().__init__()
        self.f0 = nn.Conv1d(2, 2, 1)
        self.f1 = nn.Conv1d(2, 3, 1)
        self.head = nn.Conv1d(5, 1, 1)

    def forward(self, x):
        return self.head(torch.cat((self.f0(x), self.f1(x)), 1))


class ConcatTime(nn.Module):
    """concatenation along the time axis (written as a negative index): the operands must keep the same channels"""
    def __init__(self):
        super().__init__()
        self.c0 = nn.Conv1d(2, 2, 1)
        self.c1 = nn.Conv1d(2, 2, 1)
        self.head = nn.Conv1d(2, 1, 1)

    def forward(self, x):
        return self.head(torch.cat((self.c0(x), self.c1(x)), -1))


class Depthwise1d(nn.Module):
    """conv1d -> depthwise conv1d -> depthwise conv1d -> head: depthwise layers follow the width of their producer"""
    def __init__(self):
        super().__init__()
        self.c0 = nn.Conv1d(2, 2, 1)
        self.dw0 = nn.Conv1d(2, 2, 1, groups=2)
        self.dw1 = nn.Conv1d(2, 2, 1, groups=2)
        self.head = nn.Conv1d(2, 1, 1)

    def forward(self, x):
        return self.head(self.dw1(self.dw0(self.c0(x))))


class UserPlaced(nn.Module):
    """a searchable layer placed by the user (with its own masker), followed by a BatchNorm, then a plain layer"""
    def __init__(self):
        super().__init__()
        self.c0 = PITConv1d(nn.Conv1d(2, 2, 1), PITFeaturesMasker(2), PITTimestepMasker(1), PITDilationMasker(1))
        self.bn = nn.BatchNorm1d(2)
        self.c1 = nn.Conv1d(2, 1, 1)

    def forward(self, x):
        return self.c1(self.bn(self.c0(x)))


class Activated(nn.Module):
    """an element-wise op between the last layer and the output: the last layer is still tied to the output"""
    def __init__(self):
        super().__init__()
        self.c0 = nn.Conv1d(2, 2, 1)
        self.c1 = nn.Conv1d(2, 2, 1)

    def forward(self, x):
        return torch.sigmoid(self.c1(F.relu(self.c0(x))))


class WithModules(nn.Module):
    """activation and pooling written as sub-modules: PIT does not replace them, the wrapper SHARES them with the user's model"""
    def __init__(self):
        super().__init__()
        self.c0 = nn.Conv1d(2, 2, 1)
        self.act = nn.ReLU()
        self.pool = nn.AdaptiveAvgPool1d(1)
        self.head = nn.Conv1d(2, 1, 1)

    def forward(self, x):
        return self.head(self.pool(self.act(self.c0(x))))


class SymmetricPadModule(nn.Module):
    """a temporal convolution behind an explicit SYMMETRIC padding module written by the user"""
    def __init__(self):
        super().__init__()
        self.pad = nn.ConstantPad1d((1, 1), 0)
        self.c0 = nn.Conv1d(2, 2, 3)
        self.head = nn.Conv1d(2, 1, 1)

    def forward(self, x):
        return self.head(self.c0(self.pad(x)))


class SharedConvBn(nn.Module):
    """one convolution module invoked twice, followed by a BatchNorm at its first call site only"""
    def __init__(self):
        super().__init__()
        self.c0 = nn.Conv1d(2, 2, 1)
        self.bn = nn.BatchNorm1d(2)
        self.head = nn.Conv1d(2, 1, 1)

    def forward(self, x):
        y = F.relu(self.bn(self.c0(x)))
        return self.head(self.c0(y))


class ExpandDwExcluded(nn.Module):
    """a grouped convolution with a channel multiplier (groups == in_channels, out_channels == 2 x in_channels), excluded from the search (PIT cannot
    convert it): it DEFINES the features its consumer sees"""
    def __init__(self):
        super().__init__()
        self.f0 = nn.Conv1d(2, 4, 1, groups=2)
        self.c1 = nn.Conv1d(4, 2, 1)
        self.head = nn.Conv1d(2, 1, 1)

    def forward(self, x):
        return self.head(F.relu(self.c1(self.f0(x))))


class FlattenEnd(nn.Module):
    """flatten written with an explicit (inclusive) end_dim"""
    def __init__(self):
        super().__init__()
        self.c0 = nn.Conv2d(1, 2, 1)
        self.fc = nn.Linear(8, 2)

    def forward(self, x):
        return self.fc(torch.flatten(F.relu(self.c0(x)), 1, 3))


class FlattenNegative(nn.Module):
    """flatten written with a negative start_dim (the channels are included: -3 on an NCHW tensor)"""
    def __init__(self):
        super().__init__()
        self.c0 = nn.Conv2d(1, 2, 1)
        self.fc = nn.Linear(8, 2)

    def forward(self, x):
        return self.fc(torch.flatten(F.relu(self.c0(x)), -3))


class SelfConcat(nn.Module):
    """a tensor concatenated with ITSELF along the channels"""
    def __init__(self):
        super().__init__()
        self.c0 = nn.Conv1d(2, 2, 1)
        self.head = nn.Conv1d(4, 1, 1)

    def forward(self, x):
        a = F.relu(self.c0(x))
        return self.head(torch.cat((a, a), 1))


class ConcatOutput(nn.Module):
    """the network output IS a channel concatenation: both operands are tied to the output width"""
    def __init__(self):
        super().__init__()
        self.c0 = nn.Conv1d(2, 2, 1)
        self.c1 = nn.Conv1d(2, 2, 1)
        self.c2 = nn.Conv1d(2, 1, 1)

    def forward(self, x):
        h = F.relu(self.c0(x))
        return torch.cat((self.c1(h), self.c2(h)), 1)


class AddExcluded(nn.Module):
    """a searchable layer summed with a layer the user excluded from the search: the sum fixes the width of the searchable one"""
    def __init__(self):
        super().__init__()
        self.c0 = nn.Conv1d(2, 2, 1)
        self.f1 = nn.Conv1d(2, 2, 1)
        self.head = nn.Conv1d(2, 1, 1)

    def forward(self, x):
        return self.head(F.relu(self.c0(x)) + F.relu(self.f1(x)))


class ExcludedConsumer(nn.Module):
    """a searchable layer feeding a layer the user excluded from the search: the excluded layer keeps its input width"""
    def __init__(self):
        super().__init__()
        self.c0 = nn.Conv1d(2, 2, 1)
        self.f1 = nn.Conv1d(2, 2, 1)
        self.head = nn.Conv1d(2, 1, 1)

    def forward(self, x):
        return self.head(self.f1(F.relu(self.c0(x))))


class TemporalSymmetric(nn.Module):
    """temporal convolution with built-in symmetric padding (NOT the causal padding the documentation prescribes)"""
    def __init__(self):
        super().__init__()
        self.c0 = nn.Conv1d(1, 2, 1)
        self.tc = nn.Conv1d(2, 2, 3, padding=1)
        self.head = nn.Conv1d(2, 1, 1)

    def forward(self, x):
        return self.head(self.tc(self.c0(x)))


#        class, input shape, {layer: (masker kind, group)} , {layer: producer of its input features}
NETS = {
    'chain': (Chain, (1, 2, 3), {'c0': 'free', 'c1': 'free', 'fc': 'frozen'}, {'c0': None, 'c1': ['c0'], 'fc': ('flatten', 'c1', 2)}),
    'residual': (Residual, (1, 2, 2), {'c0': 'free', 'c1': '=c0', 'head': 'frozen'}, {'c0': None, 'c1': ['c0'], 'head': ['c0']}),
    'residual-input': (ResidualInput, (1, 2, 2), {'c0': 'frozen', 'head': 'frozen'}, {'c0': None, 'head': ['c0']}),
    'concat': (Concat, (1, 2, 2), {'c0': 'free', 'c1': 'free', 'head': 'frozen'}, {'c0': None, 'c1': None, 'head': ['c0', 'c1']}),
    'depthwise2d': (Depthwise2d, (1, 1, 2, 2), {'c0': 'free', 'dw': '=c0', 'fc': 'frozen'}, {'c0': None, 'dw': ['c0'], 'fc': ('flatten', 'c0', 1)}),
    'activated': (Activated, (1, 2, 2), {'c0': 'free', 'c1': 'frozen'}, {'c0': None, 'c1': ['c0']}),
    'concat-fixed': (ConcatFixed, (1, 2, 2), {'head': 'frozen'}, {'head': [2, 3]}),
    'concat-time': (ConcatTime, (1, 2, 2), {'c0': 'free', 'c1': '=c0', 'head': 'frozen'}, {'c0': None, 'c1': None, 'head': ['c0']}),
    'depthwise1d': (Depthwise1d, (1, 2, 2), {'c0': 'free', 'dw0': '=c0', 'dw1': '=c0', 'head': 'frozen'}, {'c0': None, 'dw0': ['c0'], 'dw1': ['c0'], 'head': ['c0']}),
    'user-placed': (UserPlaced, (1, 2, 2), {'c0': 'free'}, {'c0': None, 'c1': ['c0']}),
    'temporal': (Temporal, (1, 1, 4), {'c0': 'free', 'tc': 'free', 'head': 'frozen'}, {'c0': None, 'tc': ['c0'], 'head': ['tc']}),
    'with-modules': (WithModules, (1, 2, 2), {'c0': 'free', 'head': 'frozen'}, {'c0': None, 'head': ['c0']}),
}
# architectures reported by seeding agents as failures of the UNCHANGED tree (round 4); served by their own harness entries (see HARNESSES)
EXTRA_NETS = {
    'concat-output': (ConcatOutput, (1, 2, 2), {'c0': 'free', 'c1': 'frozen', 'c2': 'frozen'}, {'c0': None, 'c1': ['c0'], 'c2': ['c0']}),
    'add-excluded': (AddExcluded, (1, 2, 2), {'c0': 'frozen', 'head': 'frozen'}, {'c0': None, 'head': [2]}),
    'excluded-consumer': (ExcludedConsumer, (1, 2, 2), {'c0': 'frozen', 'head': 'frozen'}, {'c0': None, 'head': [2]}),
    'symmetric-pad-module': (SymmetricPadModule, (1, 2, 3), {'head': 'frozen'}, {}),
    'shared-conv-bn': (SharedConvBn, (1, 2, 2), {'head': 'frozen'}, {}),
    'expand-dw-excluded': (ExpandDwExcluded, (1, 2, 2), {'c1': 'free', 'head': 'frozen'}, {'c1': [4], 'head': ['c1']}),
    'flatten-end': (FlattenEnd, (1, 1, 2, 2), {'c0': 'free', 'fc': 'frozen'}, {'c0': None, 'fc': ('flatten', 'c0', 4)}),
    'flatten-negative': (FlattenNegative, (1, 1, 2, 2), {'c0': 'free', 'fc': 'frozen'}, {'c0': None, 'fc': ('flatten', 'c0', 4)}),
    'self-concat': (SelfConcat, (1, 2, 2), {'c0': 'free', 'head': 'frozen'}, {'c0': None, 'head': ['c0', 'c0']}),
    'temporal-symmetric': (TemporalSymmetric, (1, 1, 4), {'c0': 'free', 'tc': 'free', 'head': 'frozen'}, {'c0': None, 'tc': ['c0'], 'head': ['tc']}),
}
NETS.update(EXTRA_NETS)


CAUSALLY_PADDED = {'temporal': ('tc',), 'temporal-symmetric': ('tc',)}       # layers whose receptive-field / dilation masks are symbolic
PIT_KWARGS = {'concat-fixed': {'exclude_names': ('f0', 'f1')}, 'add-excluded': {'exclude_names': ('f1',)}, 'excluded-consumer': {'exclude_names': ('f1',)}, 'expand-dw-excluded': {'exclude_names': ('f0',)}}


def _symbolic_state(H, net):
    """every parameter and every BatchNorm statistic of the user's network is an arbitrary real"""
    vals = {}
    for n, p in net.named_parameters():
        if 'masker' in n:
            continue                      # masks of user-placed searchable layers stay open, as the statement of C07 says
        t = H.tensor('w.' + n, H.shape(p))
        H.set_(p, t)
        vals[n] = H.elements(t)
    for n, m in net.named_modules():
        if H.type_name(m) in ('BatchNorm1d', 'BatchNorm2d'):
            rm, rv = H.tensor('bn.' + n + '.mean', H.shape(m.running_mean)), H.tensor('bn.' + n + '.var', H.shape(m.running_var))
            H.assume(H.ge(rv, 0))
            H.set_(m.running_mean, rm)
            H.set_(m.running_var, rv)
            vals[n + '.running_mean'], vals[n + '.running_var'] = H.elements(rm), H.elements(rv)
    return vals


def _graph_facts(H, model):
    mod = model.seed
    H.observe('nodes', [(n.op, str(n.target) if n.op != 'call_function' else n.name, n.name, [a.name for a in n.all_input_nodes]) for n in mod.graph.nodes])
    H.observe('modules', [(n, H.type_name(m)) for n, m in mod.named_modules()])
    H.observe('calculators', [(n, H.type_name(m.input_features_calculator)) for n, m in mod.named_modules() if isinstance(m, PITModule) and hasattr(m, 'out_features_masker')])


def h_import(H, net, training, fold_bn, autoconvert=True, mixed=()):
    """C07 on whole models: PIT(model) computes the function of `model` (eval mode) and leaves the user's model as it found it"""
    cls, shape, maskers, feeds = NETS[net]
    user = cls()
    vals = _symbolic_state(H, user)
    x = H.tensor('x', shape)
    user.eval()
    y0 = user(x)
    user.train(training)
    for name in mixed:
        # a user model in MIXED mode (a frozen / deliberately active sub-module): sub-modules PIT does not replace are shared with the wrapper
        user.get_submodule(name).training = not training
    flags = [m.training for m in user.modules()]
    model = PIT(user, input_example=torch.zeros(*shape), fold_bn=fold_bn, autoconvert_layers=autoconvert, **PIT_KWARGS.get(net, {}))
    _graph_facts(H, model)
    H.ensure('[C07] import:user-model-keeps-its-training-mode', [m.training for m in user.modules()] == flags)
    if not mixed:
        H.ensure('[C07] import:wrapper-keeps-the-training-mode-it-found', all(m.training == training for m in model.modules()))
    now = dict(list(user.named_parameters()) + list(user.named_buffers()))
    H.ensure('[C07] import:user-parameters-and-statistics-untouched', all(H.eq(H.elements(now[k]), v) for k, v in vals.items()))
    model.eval()
    y1 = model(x)
    H.observe('y0', y0)
    H.observe('y1', y1)
    H.ensure('[C07] import:wrapped-model-computes-the-original-function', H.eq(y0, y1))
    user.eval()
    H.ensure('[C07] import:user-model-still-computes-the-original-function', H.eq(user(x), y0))
    user.train(training)
    layers = dict(model.seed.named_modules())
    for name, kind in maskers.items():
        m = layers[name].out_features_masker
        if kind[0] == '=':
            H.ensure('[C08,C11,C09] import:layers-that-must-agree-share-one-width-mask', H.same_object(m, layers[kind[1:]].out_features_masker))
        else:
            H.ensure('[C08,C11,C09] import:widths-tied-to-network-inputs-or-outputs-are-frozen-others-searchable',
                     H.type_name(m) == ('PITFrozenFeaturesMasker' if kind == 'frozen' else 'PITFeaturesMasker'))
    # exporting immediately gives back the original architecture
    exported = model.export()
    for n, m in exported.named_modules():
        if H.type_name(m) in ('Conv1d', 'Conv2d', 'Linear'):
            o = dict(user.named_modules())[n]
            H.ensure('[C07] import:export-immediately-returns-the-original-layer-sizes', H.shape(m.weight) == H.shape(o.weight))
    if not any(H.type_name(m) in ('BatchNorm1d', 'BatchNorm2d') for m in exported.modules()):
        # (a BatchNorm that export re-creates starts from fresh statistics - the statement of C01 hands it the original ones; without one the exported
        # network has the original architecture AND the original weights, hence the original function)
        exported.eval()
        H.ensure('[C07] import:export-immediately-computes-the-original-function', H.eq(exported(x), y0))


def _alive(H, layer):
    return H.elements(layer.features_mask)


def h_search_export(H, net):
    """C01 / C09 / C08 on whole models: for every value of the mask parameters the exported network computes the function of the masked
    model; every layer sees exactly the alive features of the tensor that reaches it; nothing is pruned to zero width"""
    cls, shape, maskers, feeds = NETS[net]
    user = cls()
    _symbolic_state(H, user)
    user.eval()
    model = PIT(user, input_example=torch.zeros(*shape), fold_bn=True, **PIT_KWARGS.get(net, {}))
    layers = dict(model.seed.named_modules())
    for name, kind in maskers.items():
        if kind == 'free' or kind == 'frozen':
            # (whatever is stored in the coefficients of a frozen mask - e.g. by loading a checkpoint - the width stays the full one)
            a = layers[name].out_features_masker.alpha
            H.set_(a, H.tensor('alpha.' + name, H.shape(a)))
        # receptive-field and dilation masks of temporal convolutions with more than one tap
        # (only where the layer is causally padded, as the statement of C01 restricts)
        tm = getattr(layers[name], 'timestep_masker', None)
        if name in CAUSALLY_PADDED.get(net, ()) and H.type_name(tm) == 'PITTimestepMasker':
            H.set_(tm.beta, H.tensor('beta.' + name, H.shape(tm.beta)))
            dm = layers[name].dilation_masker
            H.set_(dm.gamma, H.tensor('gamma.' + name, H.shape(dm.gamma)))
    model.eval()
    x = H.tensor('x', shape)
    summ = model.summary()
    model.discrete_cost = True
    exported = model.export()                       # forks on every reachable mask pattern
    cost = H.scalar(model.cost)
    # C09: what each layer is told about its input
    for name, feed in feeds.items():
        calc = layers[name].input_features_calculator
        if feed is None:
            exp = None
        elif isinstance(feed, tuple):
            exp = []
            for b in _alive(H, layers[feed[1]]):
                exp = exp + [b] * feed[2]
        else:
            exp = []
            for f in feed:
                exp = exp + ([1.0] * f if isinstance(f, int) else _alive(H, layers[f]))
        if exp is not None:
            H.ensure('wiring:layer-sees-the-alive-features-of-the-tensor-that-reaches-it', H.eq(H.elements(calc.features_mask), exp))
            H.ensure('wiring:input-width-of-exported-layer-counts-them', H.eq(layers[name].in_features_opt, H.sum(exp)))
    y_nas = model(x)
    y_exp = exported(x)
    H.observe('y_nas', y_nas)
    H.observe('y_exp', y_exp)
    H.ensure('[C08] export:exported-network-returns-outputs-of-the-original-shape', H.shape(y_exp) == H.shape(y_nas))
    H.ensure('export:exported-network-computes-the-function-of-the-masked-model', H.shape(y_exp) == H.shape(y_nas) and H.eq(y_nas, y_exp))
    for n, m in exported.named_modules():
        if H.type_name(m) in ('Conv1d', 'Conv2d', 'Linear'):
            out_w = H.shape(m.weight)[0]
            H.ensure('export:no-layer-is-pruned-to-zero-width', out_w >= 1 and H.shape(m.weight)[1] >= 1)
            if n in summ:                       # layers excluded from the search are not reported
                H.ensure('export:sizes-are-those-summary-reports', out_w == summ[n]['out_features'] and
                         H.shape(m.weight)[1] * (m.groups if H.type_name(m) != 'Linear' else 1) == summ[n]['in_features'])
    # C04: the discrete parameter-count cost is the parameter count of the network export() returns
    n_params = 0
    for n, m in exported.named_modules():
        if H.type_name(m) in ('Conv1d', 'Conv2d', 'Linear') and n in summ:          # full_cost is off: only the searchable layers are charged
            n_params = n_params + m.weight.numel() + (m.bias.numel() if m.bias is not None else 0)
    H.observe('cost', cost)
    H.ensure('cost:discrete-params-cost-is-the-parameter-count-of-the-exported-network', H.eq(cost, n_params))
    H.ensure('cost:reading-it-again-gives-the-same-value', H.eq(H.scalar(model.cost), cost))
    # C04, operations metric: the discrete cost under the `ops` specification is the operation count of the exported network, computed from scratch
    # on its own layers and the output shapes it really produces (ShapeProp on the exported network); C18: switching the specification and back
    model.cost_specification = ops
    c_ops = H.scalar(model.cost)
    ShapeProp(exported).propagate(x)
    mods = dict(exported.named_modules())
    n_ops = 0
    for nd in exported.graph.nodes:
        if nd.op != 'call_module' or str(nd.target) not in summ:
            continue
        m = mods[str(nd.target)]
        oshape = nd.meta['tensor_meta'].shape
        if H.type_name(m) == 'Linear':
            n_ops = n_ops + m.out_features * (m.in_features + (1 if m.bias is not None else 0))
        elif H.type_name(m) in ('Conv1d', 'Conv2d'):
            per_out = m.weight[0].numel() + (1 if m.bias is not None else 0)        # (in_channels / groups) x kernel taps (+ bias)
            n_out = 1
            for d in oshape[1:]:
                n_out = n_out * d
            n_ops = n_ops + n_out * per_out
    H.observe('ops', c_ops)
    H.ensure('[C04] cost:discrete-ops-cost-is-the-operation-count-of-the-exported-network', H.eq(c_ops, n_ops))
    model.cost_specification = params
    H.ensure('[C18] cost:switching-the-specification-and-back-restores-the-cost', H.eq(H.scalar(model.cost), cost))
    # C18: exporting is an observer of the NAS model
    H.ensure('export:model-output-unchanged-by-export', H.eq(model(x), y_nas))
    # ... also of a model in MIXED mode (training, with some sub-modules deliberately kept in eval mode - frozen layers): every flag as it was
    model.train()
    k = 0
    for m in model.seed.modules():
        k += 1
        if k % 2 == 0:
            m.training = False
    flags = [m.training for m in model.modules()]
    model.export()
    H.ensure('[C18] export:training-flag-of-every-sub-module-unchanged-in-mixed-mode', [m.training for m in model.modules()] == flags)
    # ... and so are the reports of the wrapper: summary() (the same architecture as before the two exports), str(), the parameter listings
    s_a = model.summary()
    model.__str__()
    n_nas = len(list(model.named_nas_parameters()))
    n_net = len(list(model.named_net_parameters()))
    s_b = model.summary()
    H.ensure('[C18] observers:summary-after-exports-is-the-summary-before', _same_report(H, summ, s_a) and _same_report(H, s_a, s_b))
    H.ensure('[C18] observers:parameter-listings-partition-the-parameters', n_nas + n_net == len(list(model.parameters())))
    H.ensure('[C18] observers:training-flag-of-every-sub-module-unchanged-by-the-reports', [m.training for m in model.modules()] == flags)


def _same_report(H, a, b):
    if isinstance(a, dict):
        return isinstance(b, dict) and sorted(a.keys()) == sorted(b.keys()) and all(_same_report(H, a[k], b[k]) for k in a)
    if isinstance(a, (list, tuple)):
        return len(a) == len(b) and all(_same_report(H, u, v) for u, v in zip(a, b))
    if isinstance(a, str) or a is None:
        return a == b
    return H.eq(a, b)


PROPERTY = {}

_B = (True, False)
_MAIN = [n for n in NETS if n not in EXTRA_NETS]
_P = 'plinio/methods/pit/'
_FUNCS = [_P + 'pit.py::PIT.__init__', _P + 'pit.py::PIT.export', _P + 'graph.py::convert', _P + 'graph.py::PITTracer.is_leaf_module', _P + 'graph.py::convert_layers',
          _P + 'graph.py::autoimport_node', _P + 'graph.py::export_node', _P + 'graph.py::build_shared_features_map', _P + 'graph.py::fuse_pit_modules',
          _P + 'graph.py::register_input_features', _P + 'graph.py::pit_features_calc', 'plinio/graph/annotation.py::add_node_properties',
          'plinio/graph/annotation.py::add_features_calculator', 'plinio/graph/annotation.py::associate_input_features',
          'plinio/graph/transformation.py::fuse_consecutive_layers']
HARNESSES = [
    dict(name='whole-import', bounded='enumerated architectures (contracts/whole_pit.py NETS); weights, statistics, masks, inputs symbolic', fn='h_import', property=['C07', 'C08', 'C11'], functions=_FUNCS,
         quick=[dict(net=n, training=t, fold_bn=f) for n, t, f in (('chain', True, False), ('chain', False, True), ('residual', True, False), ('residual-input', False, False),
                                                                   ('concat', True, False), ('depthwise2d', False, False), ('activated', True, False), ('temporal', True, False), ('concat-fixed', False, False), ('concat-time', True, False), ('depthwise1d', False, False))] +
               [dict(net='user-placed', training=False, fold_bn=f, autoconvert=a) for f in _B for a in _B] +
               [dict(net='with-modules', training=t, fold_bn=False, mixed=mx) for t in _B for mx in ((), ('act',), ('act', 'pool'))],
         thorough=[dict(net=n, training=t, fold_bn=f) for n in _MAIN for t in _B for f in _B] +
                  [dict(net='with-modules', training=t, fold_bn=f, mixed=mx) for t in _B for f in _B for mx in (('act',), ('pool',), ('act', 'pool'))] +
                  [dict(net='user-placed', training=t, fold_bn=f, autoconvert=False) for f in _B for t in _B], timeout=120),
    dict(name='whole-search-export', bounded='enumerated architectures (contracts/whole_pit.py NETS); weights, statistics, masks, inputs symbolic', fn='h_search_export', property=['C01', 'C09', 'C08', 'C18', 'C04'], functions=_FUNCS + [_P + 'pit.py::PIT.' + f for f in ('summary', '__str__', 'named_nas_parameters', 'named_net_parameters')],
         quick=[dict(net=n) for n in _MAIN], thorough=[dict(net=n) for n in _MAIN], timeout=120),
    # architectures on which the unchanged tree fails (known findings, reported by seeding agents): own entries so that each is charged to the property whose clause it breaks
    dict(name='whole-import-output-tied', bounded='enumerated architectures (EXTRA_NETS)', fn='h_import', property=['C08'], functions=_FUNCS,
         quick=[dict(net='concat-output', training=False, fold_bn=False)], thorough=[dict(net='concat-output', training=t, fold_bn=False) for t in _B], timeout=120),
    dict(name='whole-search-export-output-shape', bounded='enumerated architectures (EXTRA_NETS)', fn='h_search_export', property=['C08'], functions=_FUNCS,
         quick=[dict(net='concat-output'), dict(net='temporal-symmetric')], thorough=[dict(net='concat-output'), dict(net='temporal-symmetric')], timeout=120),
    dict(name='whole-import-reported', bounded='enumerated architectures (EXTRA_NETS)', fn='h_import', property=['C07'], functions=_FUNCS,
         quick=[dict(net=n, training=False, fold_bn=False) for n in ('symmetric-pad-module', 'shared-conv-bn')],
         thorough=[dict(net=n, training=t, fold_bn=f) for n in ('symmetric-pad-module', 'shared-conv-bn') for t in _B for f in _B], timeout=120),
    dict(name='whole-search-export-flatten', bounded='enumerated architectures (EXTRA_NETS)', fn='h_search_export', property=['C09', 'C01', 'C04'], functions=_FUNCS,
         quick=[dict(net=n) for n in ('flatten-end', 'flatten-negative')], thorough=[dict(net=n) for n in ('flatten-end', 'flatten-negative')], timeout=120),
    dict(name='whole-search-export-self-concat', bounded='enumerated architectures (EXTRA_NETS)', fn='h_search_export', property=['C09'], functions=_FUNCS,
         quick=[dict(net='self-concat')], thorough=[dict(net='self-concat')], timeout=120),
    dict(name='whole-import-excluded', bounded='enumerated architectures (EXTRA_NETS)', fn='h_import', property=['C09'], functions=_FUNCS,
         quick=[dict(net=n, training=False, fold_bn=False) for n in ('add-excluded', 'excluded-consumer')],
         thorough=[dict(net=n, training=False, fold_bn=False) for n in ('add-excluded', 'excluded-consumer')], timeout=120),
    dict(name='whole-search-export-excluded', bounded='enumerated architectures (EXTRA_NETS)', fn='h_search_export', property=['C09'], functions=_FUNCS,
         quick=[dict(net=n) for n in ('add-excluded', 'excluded-consumer', 'expand-dw-excluded')], thorough=[dict(net=n) for n in ('add-excluded', 'excluded-consumer', 'expand-dw-excluded')], timeout=120),
]
