"""C20 - precision refinement: the reassignment step (symbolic values, bounded sizes) and a bounded concrete check of optimize_prec_assignment.

Function under contract: plinio/methods/mps/utils.py _reassign_precisions (mode A: symbolic score matrix, every comparison and every
data-dependent shape forks; target counts enumerated over all compositions of the channel count).  Sizes are bounded (P x C up to
3 x 3): this clause is a *bounded* stand-in in the number of precisions / channels, exhaustive in the score values.
"""
import torch
import torch.nn as nn
from plinio.methods.mps.utils import _reassign_precisions, optimize_prec_assignment
from plinio.methods.mps.mps import MPS, get_default_qinfo
from plinio.methods.mps.nn.qtz import MPSType
from plinio.cost import ne16_latency


class OneConv(nn.Module):
    def __init__(self, cin, cout, k):
        super().__init__()
        self.conv = nn.Conv2d(cin, cout, k, padding=k // 2)

    def forward(self, x):
        return self.conv(x)


def h_optimize(H, cin, counts, k=3, size=6, precs=(2, 4, 8)):
    """BOUNDED (concrete values): optimize_prec_assignment on a one-layer per-channel MPS model with the NE16 cost; `counts` channels start at
    2 / 4 / 8 bit.  Post-conditions of the statement: promotion only, one precision per channel, cost under the refinement's model not higher"""
    cout = sum(counts)
    net = OneConv(cin, cout, k)
    k = 1
    for n, p in net.named_parameters():
        vals = []
        for i in range(p.numel()):
            vals.append(((k * 37) % 17 - 8) / 8.0)
            k += 1
        H.set_(p, H.const_tensor(vals).reshape(H.shape(p)))
    model = MPS(net, cost={'ne16': ne16_latency}, input_example=torch.zeros(1, cin, size, size), w_search_type=MPSType.PER_CHANNEL,
                qinfo=get_default_qinfo(w_precision=tuple(precs), a_precision=(8,)))
    model.eval()
    qtz = model.seed.conv.w_mps_quantizer
    rows = [[], [], []]
    start = []
    for p_idx, c in enumerate(counts):
        for _ in range(c):
            start.append(p_idx)
    for ch, p_idx in enumerate(start):
        for r in range(3):
            rows[r].append(1.0 - 0.25 * abs(r - p_idx) - ch / 4096.0 - r / 16384.0)     # no two scores are equal
    H.set_(qtz.alpha, H.const_tensor(rows))
    model.update_softmax_options(hard=True)
    model(model._input_example)
    cost_before = H.scalar(model.get_cost('ne16'))
    model = optimize_prec_assignment(model, 'ne16')
    after = qtz.alpha.data.argmax(dim=0)
    model(model._input_example)
    cost_after = H.scalar(model.get_cost('ne16'))
    H.observe('costs', [cost_before, cost_after])
    H.observe('assignment', after)
    H.ensure('optimize:no-channel-loses-bits', all(precs[int(after[ch])] >= precs[start[ch]] for ch in range(cout)))
    H.ensure('optimize:cost-under-the-refinement-model-is-not-higher', H.le(cost_after, cost_before))


def h_reassign(H, P, C, best):
    scores = H.tensor('scores', (P, C))
    els = H.elements(scores)
    for i in range(P * C):
        for j in range(i):
            H.assume(H.ne(els[i], els[j]))              # no ties
    out = _reassign_precisions(torch.tensor([float(b) for b in best]), scores)
    H.observe('assignment', out)
    H.ensure('reassign:result-shape', H.shape(out) == (P, C))
    o = H.elements(out)
    H.ensure('reassign:entries-are-0-or-1', H.and_(*[H.or_(H.eq(e, 0), H.eq(e, 1)) for e in o]))
    for c in range(C):
        H.ensure('reassign:each-channel-gets-exactly-one-precision', H.eq(H.sum([o[p * C + c] for p in range(P)]), 1))
    for p in range(P):
        H.ensure('reassign:every-target-count-is-met', H.eq(H.sum([o[p * C + c] for c in range(C)]), best[p]))


def _compositions(total, parts):
    if parts == 1:
        return [(total,)]
    out = []
    for k in range(total + 1):
        for rest in _compositions(total - k, parts - 1):
            out.append((k,) + rest)
    return out


PROPERTY = {
    'C20': dict(
        level='other',
        explanation='post-condition of the real _reassign_precisions for ALL real score matrices without ties and all target compositions, sizes '
                    'P x C up to 2x3 / 3x2 (quick) and 3x3 (thorough): bounded in size, exhaustive in values. Configurations on which the unchanged '
                    'tree violates the clause are listed one by one in known_findings.json.',
        not_decided=['optimize_prec_assignment for all models and coefficients: only a BOUNDED check on concrete values is run (optimize-prec-assignment: one-layer per-channel '
                     'MPS models, 64-channel 3x3 convolution with the NE16 cost, real MPS constructor and conversion) - labelled bounded, never counted as proved', 'sizes beyond 3 x 3'],
        assumptions=['no ties among the scores', 'bounded sizes (labelled bounded, not a proof for all sizes)'],
    ),
}

HARNESSES = [
    dict(name='optimize-prec-assignment', bounded='concrete values: one-layer per-channel MPS models (64 / 32 channels, 3x3 kernel, NE16 cost), stated start counts and precision tuples', fn='h_optimize', property=['C20'], functions=['plinio/methods/mps/utils.py::optimize_prec_assignment', 'plinio/methods/mps/utils.py::_compute_cost'],
         quick=[dict(cin=32, counts=[33, 20, 11])],
         thorough=[dict(cin=32, counts=[33, 20, 11]), dict(cin=24, counts=[34, 19, 11]), dict(cin=32, counts=[14, 10, 8]),
                   dict(cin=20, counts=[15, 16, 33], precs=[8, 4, 2]), dict(cin=20, counts=[16, 15, 33], precs=[4, 8, 2]), dict(cin=20, counts=[33, 16, 15])],
         timeout=120, crosscheck=1, budget=600),
    dict(name='reassign', bounded='sizes P x C up to 3 x 3 (values symbolic and exhaustive)', fn='h_reassign', property=['C20'], functions=['plinio/methods/mps/utils.py::_reassign_precisions'],
         quick=[dict(P=P, C=C, best=list(b)) for P, C in ((2, 2), (2, 3), (3, 2)) for b in _compositions(C, P)],
         thorough=[dict(P=P, C=C, best=list(b)) for P, C in ((2, 2), (2, 3), (3, 2), (2, 4), (3, 3)) for b in _compositions(C, P)],
         timeout=30, max_paths=100000),
]
