"""C20 - precision refinement: the reassignment step.

Function under contract: plinio/methods/mps/utils.py _reassign_precisions (mode A: symbolic score matrix, every comparison and every
data-dependent shape forks; target counts enumerated over all compositions of the channel count).  Sizes are bounded (P x C up to
3 x 3): this clause is a *bounded* stand-in in the number of precisions / channels, exhaustive in the score values.
"""
import torch
from plinio.methods.mps.utils import _reassign_precisions


def h_reassign(H, P, C, best):
    scores = H.tensor('scores', (P, C))
    els = H.elements(scores)
    for i in range(P * C):
        for j in range(i):
            H.assume(H.ne(els[i], els[j]))              # no ties
    out = _reassign_precisions(torch.tensor([float(b) for b in best]), scores)
    H.observe('assignment', out)
    H.ensure('reassign:result-shape', H.shape(out) == (P, C))
    o = H.elements(out)
    H.ensure('reassign:entries-are-0-or-1', H.and_(*[H.or_(H.eq(e, 0), H.eq(e, 1)) for e in o]))
    for c in range(C):
        H.ensure('reassign:each-channel-gets-exactly-one-precision', H.eq(H.sum([o[p * C + c] for p in range(P)]), 1))
    for p in range(P):
        H.ensure('reassign:every-target-count-is-met', H.eq(H.sum([o[p * C + c] for c in range(C)]), best[p]))


def _compositions(total, parts):
    if parts == 1:
        return [(total,)]
    out = []
    for k in range(total + 1):
        for rest in _compositions(total - k, parts - 1):
            out.append((k,) + rest)
    return out


PROPERTY = {
    'C20': dict(
        level='other',
        explanation='post-condition of the real _reassign_precisions for ALL real score matrices without ties and all target compositions, sizes '
                    'P x C up to 2x3 / 3x2 (quick) and 3x3 (thorough): bounded in size, exhaustive in values. Configurations on which the unchanged '
                    'tree violates the clause are listed one by one in known_findings.json.',
        not_decided=['optimize_prec_assignment (needs a whole MPS model with the NE16 cost; float-decrement while loops): promotion-only and '
                     'cost-not-higher clauses', 'sizes beyond 3 x 3'],
        assumptions=['no ties among the scores', 'bounded sizes (labelled bounded, not a proof for all sizes)'],
    ),
}

HARNESSES = [
    dict(name='reassign', fn='h_reassign', property=['C20'], functions=['plinio/methods/mps/utils.py::_reassign_precisions'],
         quick=[dict(P=P, C=C, best=list(b)) for P, C in ((2, 2), (2, 3), (3, 2)) for b in _compositions(C, P)],
         thorough=[dict(P=P, C=C, best=list(b)) for P, C in ((2, 2), (2, 3), (3, 2), (2, 4), (3, 3)) for b in _compositions(C, P)],
         timeout=30, max_paths=100000),
]
