"""C17 - the state_dict is the whole state of a search (bounded: enumerated whole models, enumerated search actions).

What is under contract: state_dict() followed by load_state_dict() into a FRESHLY CONSTRUCTED wrapper of the same seed network, for the three
methods, with the complete constructors / conversion pipelines executed from the repository source (contracts/whole_*.py describe them).
"Any point of a search" is rendered as: every entry of the state_dict (weights, mask / selection parameters, BatchNorm statistics, sampled
coefficients, temperatures kept as buffers) is an ARBITRARY real of the right shape, and the search actions that are not parameter updates
and that a search performs over time - annealing the softmax temperature - have been called with an arbitrary argument.  The fresh wrapper
is built with the same constructor arguments.  Post-conditions: no missing / unexpected keys, identical outputs on every input (eval mode,
after the usual forward pass), identical cost and summary, identical exported network outputs.
This is a bounded stand-in for the closed-world clause "nothing that influences those observations lives outside the state_dict": it
covers the attributes the enumerated actions write, on the enumerated architectures - never counted as a proof.
Assumed library contracts: nn.Module.state_dict / load_state_dict as specified in pyvc/torchlib.py (key set, order of traversal, no
deduplication of shared tensors, strict-mode errors), compared with the real torch on every run by the cross-check.
"""
import torch
import torch.nn as nn
import torch.nn.functional as F
from plinio.methods.pit.pit import PIT
from plinio.methods.supernet.supernet import SuperNet
from plinio.methods.supernet.nn.module import SuperNetModule
from plinio.methods.mps.mps import MPS, get_default_qinfo


class PitNet(nn.Module):
    """conv -> bn -> relu -> conv (+ residual with the first conv: shared width mask) -> head"""
    def __init__(self):
        super().__init__()
        self.c0 = nn.Conv1d(2, 2, 1)
        self.bn = nn.BatchNorm1d(2)
        self.c1 = nn.Conv1d(2, 2, 1)
        self.head = nn.Conv1d(2, 1, 1)

    def forward(self, x):
        a = F.relu(self.bn(self.c0(x)))
        return self.head(a + self.c1(a))


class SnNet(nn.Module):
    def __init__(self):
        super().__init__()
        self.bn = nn.BatchNorm1d(2)
        self.blk = SuperNetModule([nn.Conv1d(2, 2, 1), nn.Sequential(nn.Conv1d(2, 2, 1), nn.ReLU()), nn.Identity()])
        self.head = nn.Conv1d(2, 1, 1)

    def forward(self, x):
        return self.head(self.blk(self.bn(x)))


class MpsNet(nn.Module):
    def __init__(self):
        super().__init__()
        self.c0 = nn.Conv2d(1, 2, 1)
        self.act = nn.ReLU()
        self.fc = nn.Linear(2, 2)

    def forward(self, x):
        return self.fc(self.act(self.c0(x)).flatten(1))


def _build(H, method, fresh=0, a_prec=(8,), disable=False):
    if method == 'pit':
        return PIT(PitNet(), input_example=torch.zeros(1, 2, 2)), (1, 2, 2)
    if method == 'supernet':
        return SuperNet(SnNet(), input_example=torch.zeros(2, 2, 2)), (2, 2, 2)
    net = MpsNet()
    k = 1
    for n, p in net.named_parameters():                # concrete weights (see contracts/whole_mps.py); `fresh` shifts them so that the
        vals = []                                      # second wrapper starts from different values than the first
        for i in range(p.numel()):
            vals.append(((k * 37 + fresh) % 17 - 8) / 8.0)
            k += 1
        H.set_(p, H.const_tensor(vals).reshape(H.shape(p)))
    return MPS(net, input_example=torch.zeros(1, 1, 1, 1), qinfo=get_default_qinfo((2, 8), tuple(a_prec)), disable_sampling=disable), (1, 1, 1, 1)


SEARCH_STATE = ('running_mean', 'running_var', 'theta_alpha', 'theta_beta', 'theta_gamma')


def _arbitrary_state(H, model, method, disable=False):
    """what a search changes of the state_dict is arbitrary: every parameter (weights, mask / selection coefficients, clip values), BatchNorm
    statistics, sampled coefficients; buffers that hold constants of the method (mask-construction matrices, keep-alive vectors, frozen
    masks, precisions) keep the value the constructor gave them.  Type invariant: variances are non-negative."""
    sel = []
    params = [id(p) for _, p in model.named_parameters()]
    for key, t in list(model.named_parameters()) + list(model.named_buffers()):      # (a tensor stored under two keys is listed once)
        if id(t) not in params and not key.endswith(SEARCH_STATE):
            continue
        if method == 'mps' and not key.endswith('alpha'):
            continue                                    # whole-model MPS forward with symbolic weights does not terminate (contracts/whole_mps.py)
        v = H.tensor('state.' + key, H.shape(t))
        if key.endswith('running_var'):
            H.assume(H.ge(v, 0))
        H.set_(t, v)
        if method == 'mps':
            sel.append(H.elements(v))
    if disable:
        # sampling is off: the stored sampled coefficients are used as they are (type invariant of what a sampler leaves: a probability vector per decision)
        for key, t in model.named_buffers():
            if key.endswith('theta_alpha'):
                cols = H.elements(t)
                n_alt = H.shape(t)[0]
                width = len(cols) // n_alt
                for e in cols:
                    H.assume(H.ge(e, 0))
                for c in range(width):
                    col = [cols[r * width + c] for r in range(n_alt)]
                    H.assume(H.eq(H.sum(col), 1))
                    for i in range(n_alt):          # one path per largest stored coefficient (ties included)
                        if H.branch(H.and_(*([H.gt(col[i], w) for w in col[:i]] + [H.ge(col[i], w) for w in col[i + 1:]]))):
                            break
    # MPS: one path per combination of selected precisions (ties included)
    for vals in sel:
        for i in range(len(vals)):
            if H.branch(H.and_(*([H.gt(vals[i], w) for w in vals[:i]] + [H.ge(vals[i], w) for w in vals[i + 1:]]))):
                break


def _same(H, a, b):
    if isinstance(a, dict):
        return isinstance(b, dict) and sorted(a.keys()) == sorted(b.keys()) and all(_same(H, a[k], b[k]) for k in a)
    if isinstance(a, (list, tuple)):
        return len(a) == len(b) and all(_same(H, x, y) for x, y in zip(a, b))
    return H.eq(a, b)


def h_roundtrip(H, method, anneal, a_prec=(8,), training=False, disable=False):
    a, shape = _build(H, method, 0, a_prec)
    _arbitrary_state(H, a, method, disable)
    if anneal:
        T = H.real('temperature') if method != 'mps' else 0.5      # (MPS: a concrete value - a symbolic scale inside arg-max is beyond the local entailment query)
        if method != 'mps':
            H.assume(H.and_(T >= 0.05, T <= 20))
        a.update_softmax_options(temperature=T)
    if disable:
        # the search ran with sampling on (the sampled coefficients are whatever it left), then sampling was switched off for fine-tuning; the run is resumed
        # in a wrapper constructed with disable_sampling=True
        a.update_softmax_options(disable_sampling=True)
    sd = a.state_dict()
    b, _ = _build(H, method, 5, a_prec, disable)
    raised = False
    try:
        res = b.load_state_dict(sd)
    except RuntimeError:
        raised = True
    H.ensure('load:a-fresh-wrapper-of-the-same-seed-accepts-the-state-dict', not raised)
    if raised:
        return
    H.observe('keys', sorted(sd.keys()))
    H.ensure('load:no-missing-or-unexpected-keys', len(res.missing_keys) == 0 and len(res.unexpected_keys) == 0)
    H.ensure('load:same-key-set', sorted(b.state_dict().keys()) == sorted(sd.keys()))
    x = H.tensor('x', shape) if method != 'mps' else H.const_tensor([[[[0.75]]]])
    a.train(training)
    b.train(training)
    ya, yb = a(x), b(x)                                 # the usual forward pass (samples the coefficients)
    if not (method == 'mps' and disable):
        H.observe('ya', ya)         # (a mixture of quantized branches with arbitrary stored coefficients sits on floor boundaries: float32 / float64 level flips)
    H.ensure('roundtrip:identical-outputs', H.eq(ya, yb))
    H.ensure('roundtrip:identical-cost', H.eq(H.scalar(a.get_cost()), H.scalar(b.get_cost())))
    sa, sb = a.summary(), b.summary()
    H.ensure('roundtrip:identical-summary', _same(H, sa, sb))
    ea, eb = a.export(), b.export()
    ea.eval()
    eb.eval()
    H.ensure('roundtrip:identical-exported-architecture', [n for n, _ in ea.named_modules()] == [n for n, _ in eb.named_modules()])
    H.ensure('roundtrip:identical-exported-outputs', H.eq(ea(x), eb(x)))


PROPERTY = {
    'C17': dict(
        level='other',
        explanation='bounded stand-in: state_dict() -> load_state_dict() into a freshly constructed wrapper, real constructors and conversion pipelines, one enumerated '
                    'architecture per method (PIT with a shared width mask and a fused BatchNorm, SuperNet with three branch kinds, MPS with two layers); every state_dict '
                    'entry an arbitrary real (MPS: selection coefficients and temperatures; weights concrete), temperature annealing as the one search action that is not a '
                    'parameter update; post-conditions: no missing / unexpected keys, identical outputs on every input, cost, summary, exported network',
        not_decided=['the closed-world clause over ALL attributes and ALL search actions (only the enumerated actions are applied); option flags (hard / gumbel / disable_sampling / discrete_cost / '
                     'train_* switches) are treated as configuration: the fresh wrapper is assumed to be configured like the saved one', 'architectures beyond the three enumerated ones',
                     'state saved in training mode with Gumbel noise (random)', 'optimizer state (not part of the model)'],
        trusted=['nn.Module.state_dict / load_state_dict as specified in pyvc/torchlib.py (cross-checked: key lists are observations)'],
        assumptions=['the fresh wrapper is built with the same constructor arguments', 'eval-mode comparison after one forward pass, as the statement says'],
    ),
}

_B = (True, False)
HARNESSES = [
    dict(name='state-roundtrip', bounded='one enumerated architecture per method, enumerated search actions; state values symbolic (MPS: weights concrete)', fn='h_roundtrip', property=['C17'],
         functions=['plinio/methods/pit/pit.py::PIT.__init__', 'plinio/methods/supernet/supernet.py::SuperNet.__init__', 'plinio/methods/mps/mps.py::MPS.__init__',
                    'plinio/methods/supernet/supernet.py::SuperNet.update_softmax_options', 'plinio/methods/mps/mps.py::MPS.update_softmax_options',
                    'plinio/methods/pit/pit.py::PIT.export', 'plinio/methods/supernet/supernet.py::SuperNet.export', 'plinio/methods/mps/mps.py::MPS.export'],
         quick=[dict(method='pit', anneal=False), dict(method='supernet', anneal=True), dict(method='supernet', anneal=False), dict(method='mps', anneal=True),
                dict(method='pit', anneal=False, training=True), dict(method='supernet', anneal=False, training=True),
                dict(method='mps', anneal=True, training=True), dict(method='mps', anneal=False, disable=True), dict(method='mps', anneal=False, disable=True, training=True)],
         thorough=[dict(method='pit', anneal=False), dict(method='supernet', anneal=True), dict(method='supernet', anneal=False), dict(method='mps', anneal=True, a_prec=[4, 8]),
                   dict(method='mps', anneal=False), dict(method='pit', anneal=False, training=True), dict(method='supernet', anneal=False, training=True),
                   dict(method='supernet', anneal=True, training=True), dict(method='mps', anneal=True, training=True), dict(method='mps', anneal=True, a_prec=[4, 8], training=True),
                   dict(method='mps', anneal=False, disable=True), dict(method='mps', anneal=False, disable=True, training=True), dict(method='mps', anneal=True, a_prec=[4, 8], disable=True)], timeout=120),
]
