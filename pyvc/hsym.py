"""Harness API `H`, symbolic side.  The same harness source runs natively with pyvc.native.H (replay / cross-check).

A harness states the contract of the real function(s) it calls: `assume` = requires, `ensure` = a named
post-condition / invariant / frame clause; inputs are declared with real/int/tensor and are universally quantified.
"""
import fractions
import z3
from . import sym
from .sym import (PATH, is_sym, to_real, to_num, s_add, s_sub, s_mul, s_div, s_abs, s_cmp, s_ite, s_min, s_max, s_and, s_or,
                  s_not, s_floor, s_ceil, as_bool, Unsupported, StopPath, s_implies, truth, concretize_int, s_round)
from .tensor import Tensor
from .oblig import oblige, Store
from . import interp as I
from .modeb import SSeq, SymRef, SymDict, LoopSpec


def _sc(x):
    if isinstance(x, Tensor):
        if x.numel() != 1:
            raise Unsupported('scalar expected, got a tensor with several elements')
        return x.els[0]
    return x


def _b(x):
    x = _sc(x)
    return as_bool(x) if is_sym(x) else bool(x)


class HSym:
    mode = 'symbolic'
    symbolic = True

    def __init__(self, interp, store, concrete_inputs=None):
        self.it = interp
        self.store = store
        self.cin = concrete_inputs        # dict name -> value (concrete cross-check mode) or None
        self.observations = {}
        self.ensures = []                 # (name, bool) in concrete mode
        self.symbolic = concrete_inputs is None       # False in the concrete cross-check run: harnesses install callee contracts (fresh results) only when symbolic

    # ---------------------------------------------------------------- inputs
    def _decl(self, name, sort):
        if self.cin is not None:
            if name not in self.cin:
                raise Unsupported(f'concrete run without a value for input {name}')
            v = self.cin[name]
            if isinstance(v, str):
                v = {'True': True, 'False': False}.get(v, None) if v in ('True', 'False') else float(fractions.Fraction(v))
            return v
        if name in self.store.inputs and not isinstance(self.store.inputs[name], (list, dict)):
            return self.store.inputs[name]
        t = z3.Const(name, sort)
        self.store.inputs[name] = t
        return t

    def real(self, name):
        v = self._decl(name, z3.RealSort())
        return float(v) if self.cin is not None else v

    def int(self, name):
        v = self._decl(name, z3.IntSort())
        return int(v) if self.cin is not None else v

    def bool(self, name):
        v = self._decl(name, z3.BoolSort())
        return bool(v) if self.cin is not None else v

    def reals(self, name, n):
        return [self.real(f'{name}[{i}]') for i in range(n)]

    def ints(self, name, n):
        return [self.int(f'{name}[{i}]') for i in range(n)]

    def tensor(self, name, shape):
        shape = tuple(shape) if isinstance(shape, (tuple, list)) else (shape,)
        n = 1
        for s in shape:
            n *= s
        return Tensor(shape, [self.real(f'{name}[{i}]') for i in range(n)])

    def itensor(self, name, shape):
        shape = tuple(shape) if isinstance(shape, (tuple, list)) else (shape,)
        n = 1
        for s in shape:
            n *= s
        return Tensor(shape, [self.int(f'{name}[{i}]') for i in range(n)])

    def scalar_tensor(self, v):
        """0-d tensor holding the given (possibly symbolic) number"""
        return Tensor((), [_sc(v)])

    def const_tensor(self, values):
        return Tensor.from_nested(values)

    def index(self, name, n):
        i = self.int(name)
        self.assume(self.and_(i >= 0, i < n) if is_sym(i) else (0 <= i < n))
        return i

    def ufun(self, name, arity, ret='real'):
        """uninterpreted function value (a cost function, a constraint ...): callable from the interpreted code"""
        if self.cin is not None:
            table = self.cin.get('ufun:' + name, {})
            return I.SymCallable(name, lambda it, *a, **k: _ufun_concrete(name, table, a, ret))
        sorts = [z3.RealSort()] * arity + [{'real': z3.RealSort(), 'int': z3.IntSort(), 'bool': z3.BoolSort()}[ret]]
        f = z3.Function(name, *sorts)
        self.store.ufuns[name] = f
        return I.SymCallable(name, lambda it, *a, **k: f(*[_to_real_term(_sc(x)) for x in a]))

    # ---------------------------------------------------------------- state manipulation
    def set_(self, param, value):
        """overwrite the value of a parameter/buffer tensor (any real value an optimizer can reach)"""
        value = value if isinstance(value, Tensor) else Tensor.from_nested(value)
        if tuple(param.shape) != tuple(value.shape):
            raise Unsupported(f'set_: shape {value.shape} does not match {param.shape}')
        param.els = list(value.els)
        return param

    def patch(self, module, name, value):
        """replace a module-level function of the code under verification by a harness-provided one: the callee is then under an
        *assumed* contract (used for the torch.fx conversion entry points, which are outside the reach of contracts)"""
        self.it.load(module).env.set(name, value)
        self.store.patched = getattr(self.store, 'patched', set())
        self.store.patched.add(f'{module}.{name}')

    def bare(self, cls):
        """an instance of an nn.Module subclass whose own constructor is NOT run (only nn.Module.__init__): used to call a single
        method of a class whose constructor is out of reach; the attributes the method reads are set by the harness"""
        o = I.Obj(cls)
        c, mem = self.it.find_member(self.it.libs['torch'].nn.Module, '__init__')
        mem['fn'](self.it, o)
        return o

    def bare_object(self, cls):
        """an instance of a plain class whose constructor is not run (mode B: the fields are set to symbolic collections)"""
        return I.Obj(cls)

    def utensor(self, name, index):
        """0-d tensor holding the value of an uninterpreted real function of an integer index (ghost: the i-th element of a sequence)"""
        f = z3.Function(name, z3.IntSort(), z3.RealSort())
        return Tensor((), [f(index if is_sym(index) else z3.IntVal(index))])

    def set_requires_grad(self, t, v):
        t.requires_grad = v if is_sym(v) else bool(v)

    def get_requires_grad(self, t):
        return t.requires_grad

    def named_parameters(self, module):
        return list(self.it.call(self.it.getattr(module, 'named_parameters'), [], {}))

    def scalar(self, t):
        return _sc(t)

    def shape(self, t):
        return tuple(t.shape)

    def elements(self, t):
        return list(t.els)

    def is_tensor(self, t):
        return isinstance(t, Tensor)

    def requires_grad(self, t):
        return t.requires_grad

    def is_parameter(self, t):
        return isinstance(t, Tensor) and t.is_param

    def same_object(self, a, b):
        return a is b

    def type_name(self, o):
        if isinstance(o, I.Obj) and '_class_name' in o.attrs:
            return o.attrs['_class_name']          # torch.fx.GraphModule instances carry the class name of the traced root
        t = self.it.type_of(o)
        n = getattr(t, 'name', None) or getattr(t, '__name__', str(t))
        return n.split('.')[-1]

    # ---------------------------------------------------------------- contract clauses
    def assume(self, c):
        c = _b(c)
        if self.cin is not None:
            if not c:
                raise StopPath()
            return
        PATH().assume(c)
        # vacuity guard: the path must stay satisfiable
        if is_sym(c) and PATH().solver.check() == z3.unsat:
            raise sym.Infeasible()

    def ensure(self, name, c, kind='post'):
        c = _b(c)
        if self.cin is not None:
            self.ensures.append((name, bool(c)))
            return
        oblige(name, kind, c if is_sym(c) else z3.BoolVal(bool(c)))

    def unreachable(self, name):
        self.ensure(name, False, kind='raises')

    def observe(self, name, v):
        """value recorded for the CPython cross-check (concrete runs only)"""
        if self.cin is not None:
            self.observations[name] = _plain(v)

    def cover(self, name):
        """reachability marker: at least one feasible path must hit it (vacuity guard)"""
        if self.cin is None:
            self.store.covers = getattr(self.store, 'covers', set())
            self.store.covers.add(name)

    # ---------------------------------------------------------------- logic / arithmetic helpers (dual-mode)
    def and_(self, *xs):
        return s_and(*[_b(x) for x in xs])

    def or_(self, *xs):
        return s_or(*[_b(x) for x in xs])

    def not_(self, x):
        return s_not(_b(x))

    def implies(self, a, b):
        return s_implies(_b(a), _b(b))

    def iff(self, a, b):
        a, b = _b(a), _b(b)
        return s_and(s_implies(a, b), s_implies(b, a))

    def ite(self, c, a, b):
        return s_ite(_b(c), _sc(a), _sc(b))

    def _cmp_all(self, op, a, b):
        if isinstance(a, Tensor) or isinstance(b, Tensor):
            a = a if isinstance(a, Tensor) else Tensor((), [a])
            if isinstance(b, Tensor) and a.numel() == 1 and b.numel() != 1:
                a = a.expand_to(b.shape)
            r = a.cmp(op, b)
            return s_and(*[as_bool(e) if is_sym(e) else bool(e) for e in r.els])
        if isinstance(a, (tuple, list)) and isinstance(b, (tuple, list)):
            if len(a) != len(b):
                return False
            return s_and(*[self._cmp_all(op, x, y) for x, y in zip(a, b)])
        return s_cmp(op, a, b)

    def eq(self, a, b):
        if isinstance(a, Tensor) and isinstance(b, Tensor) and a.shape != b.shape and a.numel() != 1 and b.numel() != 1:
            return False
        if a is None or b is None:
            return a is b
        if self.cin is not None or not _has_sym(a) and not _has_sym(b):
            return _tolerant_eq(a, b)         # concrete floats (e.g. a softmax of constants): equality up to round-off
        return self._cmp_all('==', a, b)

    def ne(self, a, b):
        if self.cin is not None:            # exact, as in pyvc.native (only equality is tolerant)
            return s_not(self._cmp_all('==', a, b))
        return s_not(self.eq(a, b))

    def le(self, a, b):
        return self._cmp_all('<=', a, b)

    def lt(self, a, b):
        return self._cmp_all('<', a, b)

    def ge(self, a, b):
        return self._cmp_all('>=', a, b)

    def gt(self, a, b):
        return self._cmp_all('>', a, b)

    def all(self, t):
        if isinstance(t, Tensor):
            return s_and(*[as_bool(e) if is_sym(e) else bool(e) for e in t.els])
        return s_and(*[_b(x) for x in t])

    def any(self, t):
        if isinstance(t, Tensor):
            return s_or(*[as_bool(e) if is_sym(e) else bool(e) for e in t.els])
        return s_or(*[_b(x) for x in t])

    def sum(self, xs):
        acc = 0
        for x in (xs.els if isinstance(xs, Tensor) else xs):
            acc = s_add(acc, to_num(_sc(x)))
        return acc

    def count(self, bools):
        acc = 0
        for x in (bools.els if isinstance(bools, Tensor) else bools):
            acc = s_add(acc, s_ite(_b(x), 1, 0))
        return acc

    def abs(self, x):
        return s_abs(_sc(x))

    def min(self, a, b):
        return s_min(_sc(a), _sc(b))

    def max(self, a, b):
        return s_max(_sc(a), _sc(b))

    def floor(self, x):
        return s_floor(_sc(x))

    def ceil(self, x):
        return s_ceil(_sc(x))

    def is_integer(self, x):
        return sym.s_is_integer(_sc(x))

    def div(self, a, b):
        return s_div(_sc(a), _sc(b))

    def mul(self, a, b):
        return s_mul(_sc(a), _sc(b))

    def add(self, a, b):
        return s_add(_sc(a), _sc(b))

    def sub(self, a, b):
        return s_sub(_sc(a), _sc(b))

    def forall(self, n, f):
        """conjunction over range(n) of a harness-level predicate (concrete n)"""
        return s_and(*[_b(self.it.call(f, [i], {})) for i in range(n)])

    def exists(self, n, f):
        return s_or(*[_b(self.it.call(f, [i], {})) for i in range(n)])

    def concretize(self, v):
        return concretize_int(_sc(v))

    def branch(self, c):
        """explicit case split in the harness"""
        return truth(_b(c))

    # ---------------------------------------------------------------- fx single-node graphs
    def fx_chain(self, named_modules):
        """a linear torch.fx graph  x -> m0 -> m1 -> ...  over the given (name, module) pairs.
        Returns (graph_module, [nodes of the modules])"""
        from .torchlib import FxGraphModule
        gm = FxGraphModule()
        prev = gm.graph.placeholder('x')
        nodes = []
        for name, m in named_modules:
            gm.mods[name] = m
            prev = gm.graph.call_module(name, (prev,))
            nodes.append(prev)
        gm.graph.output(prev)
        return gm, nodes

    def fx_function_node(self, fn, n_inputs, extra_args=(), kwargs=None):
        """a torch.fx call_function node applying `fn` to a tuple of n_inputs placeholder nodes (+ extra positional / keyword args)"""
        from .torchlib import FxGraph, FxNode
        g = FxGraph()
        ins = tuple(g.placeholder('x%d' % i) for i in range(n_inputs))
        n = FxNode(g, 'call_function', fn, (ins,) + tuple(extra_args))
        n.kwargs = dict(kwargs or {})
        g._nodes.append(n)
        return n

    def fx_graph(self, spec, modules=None, list_args=()):
        """a torch.fx graph given as [(name, op, [input names], meta dict)]; `modules` maps call_module targets to module objects
        (Identity if absent); nodes named in `list_args` receive their inputs as ONE list argument.  Returns (graph module, {name: node})"""
        from .torchlib import FxGraphModule, FxNode
        gm = FxGraphModule()
        nodes = {}
        modules = modules or {}
        for name, op, inputs, meta in spec:
            target = name.split('@')[0]              # 'layer@2' = second invocation of sub-module 'layer'
            ins = tuple(nodes[i] for i in inputs)
            n = FxNode(gm.graph, op, target, (list(ins),) if name in list_args else ins, name.replace('@', '_').replace('.', '_'))
            n.meta = dict(meta)
            gm.graph._nodes.append(n)
            nodes[name] = n
            if op == 'call_module' and target not in gm.mods:
                gm.mods[target] = modules[target] if target in modules else self.it.call(self.it.libs['torch'].nn.Identity, [], {})
        return gm, nodes

    def fx_module_names(self, gm):
        return sorted(gm.mods.keys())

    def fx_run(self, gm, x):
        return gm.run(self.it, x)

    def fx_modules(self, gm):
        """[(name, module)] in execution order"""
        return [(str(n.target), gm.mods[str(n.target)]) for n in gm.graph.nodes if n.op == 'call_module']

    # ---------------------------------------------------------------- mode B
    def sseq(self, name, n, elem):
        return SSeq(n, lambda i: self.it.call(elem, [i], {}), name)

    def symref(self, term, apply=None):
        ap = None
        if apply is not None:
            ap = lambda t, *args: self.it.call(apply, [t], {})
        return SymRef(term, ap)

    def invariant(self, qualname, ordinal, inv, havoc):
        self.it.invariants[(qualname, ordinal)] = LoopSpec(
            lambda envv, i: _b(self.it.call(inv, [envv, i], {})),
            {k: (lambda p, mk=mk: self.it.call(mk, [], {})) for k, mk in havoc.items()})

    def ifun(self, name, arity, ret='int'):
        """uninterpreted function over integers (mode B ghost state: registration index -> id, ...)"""
        sorts = [z3.IntSort()] * arity + [{'real': z3.RealSort(), 'int': z3.IntSort(), 'bool': z3.BoolSort()}[ret]]
        f = z3.Function(name, *sorts)
        return I.SymCallable(name, lambda it, *a, **k: f(*[x if is_sym(x) else z3.IntVal(x) for x in a]))

    def forall_int(self, body):
        k = PATH().fresh('q', z3.IntSort())
        b = _b(self.it.call(body, [k], {}))
        return z3.ForAll([k], b) if is_sym(b) else b

    def exists_int(self, body):
        k = PATH().fresh('q', z3.IntSort())
        b = _b(self.it.call(body, [k], {}))
        return z3.Exists([k], b) if is_sym(b) else b

    def symdict(self, has, value):
        return SymDict(lambda k: has, lambda k: value)

    def ref_id(self, v):
        """the integer id of a symbolic reference (0 for None)"""
        return SymRef.term_of(v)

    def fresh_ref(self, prefix, apply=None):
        return SymRef(PATH().fresh(prefix, z3.IntSort()), apply)

    def fresh_int(self, prefix):
        return PATH().fresh(prefix, z3.IntSort())

    def fresh_real(self, prefix):
        return PATH().fresh(prefix, z3.RealSort())

    def z3(self):
        return z3


def _to_real_term(x):
    if is_sym(x):
        return to_real(x)
    return z3.RealVal(fractions.Fraction(x))


def _ufun_concrete(name, table, args, ret):
    key = ','.join(str(_plain(a)) for a in args)
    if key in table:
        return table[key]
    # deterministic pseudo-random but well-behaved default
    import zlib
    h = zlib.crc32((name + '|' + key).encode()) % 1000
    return {'real': h / 10.0, 'int': h, 'bool': bool(h % 2)}[ret]


def _plain(v):
    if isinstance(v, Tensor):
        return {'shape': list(v.shape), 'els': [_plain(e) for e in v.els]}
    if isinstance(v, (list, tuple)):
        return [_plain(x) for x in v]
    if isinstance(v, dict):
        return {str(k): _plain(x) for k, x in v.items()}
    if isinstance(v, bool) or v is None or isinstance(v, (int, str)):
        return v
    if isinstance(v, float):
        import math
        return v if math.isfinite(v) else str(v)
    if isinstance(v, fractions.Fraction):
        return float(v)
    if is_sym(v):
        vs = z3.simplify(v)
        if z3.is_int_value(vs):
            return vs.as_long()
        if z3.is_rational_value(vs):
            return float(vs.numerator_as_long()) / float(vs.denominator_as_long())
        if z3.is_true(vs):
            return True
        if z3.is_false(vs):
            return False
        return str(vs)
    return str(v)


RTOL, ATOL = 1e-5, 1e-7      # same tolerance as pyvc.native (equality of floats in concrete runs)


def _tolerant_eq(a, b):
    import math
    if isinstance(a, Tensor) or isinstance(b, Tensor):
        xa = a.els if isinstance(a, Tensor) else None
        xb = b.els if isinstance(b, Tensor) else None
        if xa is not None and xb is not None:
            if len(xa) == len(xb):
                return all(_tolerant_eq(x, y) for x, y in zip(xa, xb))
            if len(xa) == 1:
                return all(_tolerant_eq(xa[0], y) for y in xb)
            if len(xb) == 1:
                return all(_tolerant_eq(x, xb[0]) for x in xa)
            return False
        if xa is not None:
            return all(_tolerant_eq(x, b) for x in xa)
        return all(_tolerant_eq(a, y) for y in xb)
    if isinstance(a, (tuple, list)) and isinstance(b, (tuple, list)):
        return len(a) == len(b) and all(_tolerant_eq(x, y) for x, y in zip(a, b))
    if isinstance(a, bool) or isinstance(b, bool) or isinstance(a, str) or isinstance(b, str):
        return a == b
    return math.isclose(a, b, rel_tol=RTOL, abs_tol=ATOL)


def _has_sym(v):
    if isinstance(v, Tensor):
        return any(is_sym(e) for e in v.els)
    if isinstance(v, (list, tuple)):
        return any(_has_sym(x) for x in v)
    return is_sym(v)
