"""Obligation store and discharge (z3 primary, cvc5 CLI for what z3 leaves unknown)."""
import os
import subprocess
import tempfile
import time
import z3
from .sym import PATH, is_sym, as_bool, s_cmp, to_num, model_value, Unsupported


class Obligation:
    __slots__ = ('name', 'kind', 'pc', 'formula', 'meta', 'status', 'backend', 'time', 'model', 'note')

    def __init__(self, name, kind, pc, formula, meta=None):
        self.name, self.kind, self.pc, self.formula = name, kind, pc, formula
        self.meta = meta or {}
        self.status = None      # discharged | refuted | unknown
        self.backend = None
        self.time = 0.0
        self.model = None
        self.note = ''


class Store:
    """obligations of the harness run in progress"""
    current = None

    def __init__(self):
        self.obls = []
        self.seen = set()
        self.safety_on = True
        self.inputs = {}        # name -> z3 term or structure of terms (harness inputs, for counter-models)
        self.ufuns = {}         # name -> z3 FuncDeclRef

    def add(self, name, kind, formula, meta=None):
        p = PATH()
        if p is not None and p.concrete:
            return
        if isinstance(formula, bool):
            formula = z3.BoolVal(formula)
        pc = list(p.pc)
        key = (name, kind, z3.And(*pc).hash() if pc else 0, formula.hash())
        if key in self.seen:
            return
        self.seen.add(key)
        self.obls.append(Obligation(name, kind, pc, formula, meta))


def oblige(name, kind, formula, meta=None):
    Store.current.add(name, kind, formula, meta)


def safety_nonzero(b, what):
    """definedness: divisor != 0 (tensor arithmetic does not raise in torch: inf/nan are the failure)"""
    st = Store.current
    if st is None or not st.safety_on:
        return
    p = PATH()
    if p is None or p.concrete:
        return
    if is_sym(b):
        st.add(f'safety:{what}:divisor-nonzero', 'safety', s_cmp('!=', to_num(b), 0))
    elif b == 0:
        st.add(f'safety:{what}:divisor-nonzero', 'safety', z3.BoolVal(False))


# ------------------------------------------------------------------------------------------
def _cvc5(smt2, timeout_s):
    with tempfile.NamedTemporaryFile('w', suffix='.smt2', delete=False) as f:
        f.write('(set-logic ALL)\n' + smt2 + '\n(check-sat)\n')
        fn = f.name
    try:
        r = subprocess.run(['/usr/bin/cvc5', '--tlimit', str(int(timeout_s * 1000)), fn], capture_output=True,
                           text=True, timeout=timeout_s + 5)
        out = r.stdout.strip().splitlines()
        return out[0] if out else 'unknown'
    except Exception:
        return 'unknown'
    finally:
        os.unlink(fn)


def _relaxed_unsat(ob, timeout_s):
    """sound over-approximation: integers relaxed to reals, floor/ToInt/div/mod replaced by fresh reals with their bounds and the
    pairwise monotonicity instances.  `unsat` of the relaxation implies `unsat` of the obligation; `sat` proves nothing."""
    try:
        rel = relax_to_reals(list(ob.pc) + [z3.Not(ob.formula)])
    except Exception:
        rel = None
    if rel is None:
        return False
    s3 = z3.TryFor(z3.Tactic('qfnra-nlsat'), int(timeout_s * 1000)).solver() if not _has_quantifier(rel) else z3.Solver()
    s3.set('timeout', int(timeout_s * 1000))
    s3.add(*rel)
    try:
        return s3.check() == z3.unsat
    except z3.Z3Exception:
        return False


def discharge(ob, inputs, timeout_s=30, use_cvc5=True, ufuns=None):
    """portfolio with escalating budgets: z3 (4 s) -> real relaxation/nlsat (6 s) -> cvc5 -> relaxation (full) -> z3 (full)"""
    t0 = time.time()
    # stage 0: fewer hypotheses first (sound): the goal alone, then the path-condition conjuncts that share a variable with it
    if len(ob.pc) > 3:
        for sub, label in ((lambda: [], 'z3(goal only)'), (lambda: _relevant(ob.pc, ob.formula), 'z3(relevant hypotheses)')):
            s0 = z3.Solver()
            s0.set('timeout', 1500)
            hyp = sub()
            if label.startswith('z3(rel') and len(hyp) in (0, len(ob.pc)):
                continue
            s0.add(*hyp)
            s0.add(z3.Not(ob.formula))
            if s0.check() == z3.unsat:
                ob.status, ob.backend = 'discharged', label
                ob.time = time.time() - t0
                return ob
    s = z3.Solver()
    s.set('timeout', int(min(timeout_s, 4) * 1000))
    s.set('random_seed', 7)
    s.add(*ob.pc)
    s.add(z3.Not(ob.formula))
    r = s.check()
    ob.backend = 'z3'
    if r == z3.unknown:
        # cheap counter-model attempt first: obligations that do NOT hold are often hard for the solvers and easy to falsify by evaluation
        m = random_refute(ob, inputs, tries=6)
        if m is not None:
            ob.status, ob.backend = 'refuted', 'pyvc:path-condition model + random completion (evaluated counter-model)'
            ob.model = extract_model(m, inputs, ufuns)
            ob.time = time.time() - t0
            return ob
        done = None
        if _relaxed_unsat(ob, min(timeout_s, 6)):
            done = 'z3:real-relaxation(nlsat)'
        if not done and timeout_s > 12:
            # second round with three times the budget before the expensive back ends: an obligation that needs 2 - 5 s on an idle
            # machine must not fall through to the long stages when all cores are busy (verdicts must not flip under load)
            if len(ob.pc) > 3:
                s0 = z3.Solver()
                s0.set('timeout', 6000)
                hyp = _relevant(ob.pc, ob.formula)
                if 0 < len(hyp) < len(ob.pc):
                    s0.add(*hyp)
                    s0.add(z3.Not(ob.formula))
                    if s0.check() == z3.unsat:
                        done = 'z3(relevant hypotheses)'
            if not done:
                s.set('timeout', 14000)
                r = s.check()
                if r == z3.unsat:
                    done = 'z3'
                elif r == z3.unknown and _relaxed_unsat(ob, 20):
                    done = 'z3:real-relaxation(nlsat)'
        if not done and r == z3.unknown:
            if use_cvc5 and _cvc5(s.to_smt2().replace('(check-sat)', ''), timeout_s) == 'unsat':
                done = 'cvc5'
            elif timeout_s > 6 and _relaxed_unsat(ob, timeout_s):
                done = 'z3:real-relaxation(nlsat)'
        if done:
            ob.status, ob.backend = 'discharged', done
            ob.time = time.time() - t0
            return ob
        if r == z3.unknown:
            s.set('timeout', int(timeout_s * 1000))
            r = s.check()
        if r == z3.unknown:
            s2 = z3.TryFor(z3.Then('simplify', 'solve-eqs', 'smt'), int(min(timeout_s, 30) * 1000)).solver()
            s2.add(*ob.pc)
            s2.add(z3.Not(ob.formula))
            r2 = s2.check()
            if r2 != z3.unknown:
                r, s = r2, s2
                ob.backend = 'z3(simplify,solve-eqs,smt)'
    if r == z3.sat and not _has_quantifier(list(ob.pc) + [ob.formula]):
        # never believe an unvalidated `sat`: the model must evaluate the path condition to true and the obligation to false
        try:
            m0 = s.model()
            ok = z3.is_true(m0.eval(z3.And(*ob.pc), model_completion=True)) if ob.pc else True
            ok = ok and z3.is_false(m0.eval(ob.formula, model_completion=True))
        except z3.Z3Exception:
            ok = False
        if not ok:
            r = z3.unknown
            ob.note = (ob.note + ' solver model did not validate (treated as unknown)').strip()
            # an invalid model says nothing: let the other back ends decide before giving up
            if _relaxed_unsat(ob, max(20, timeout_s)):
                ob.status, ob.backend = 'discharged', 'z3:real-relaxation(nlsat)'
                ob.time = time.time() - t0
                return ob
            if use_cvc5:
                s9 = z3.Solver()
                s9.add(*ob.pc)
                s9.add(z3.Not(ob.formula))
                if _cvc5(s9.to_smt2().replace('(check-sat)', ''), timeout_s) == 'unsat':
                    ob.status, ob.backend = 'discharged', 'cvc5'
                    ob.time = time.time() - t0
                    return ob
    if r == z3.unknown:
        m = random_refute(ob, inputs)
        if m is not None:
            ob.status, ob.backend = 'refuted', 'pyvc:path-condition model + random completion (evaluated counter-model)'
            ob.model = extract_model(m, inputs, ufuns)
            ob.time = time.time() - t0
            return ob
    if r == z3.unsat:
        ob.status = 'discharged'
    elif r == z3.sat:
        ob.status = 'refuted'
        m = s.model()
        # prefer a counter-model whose real inputs are small dyadic rationals: exactly representable in the native replay
        try:
            s.push()
            s.set('timeout', 5000)
            s.add(*dyadic_constraints(inputs))
            if s.check() == z3.sat:
                m = s.model()
            s.pop()
        except z3.Z3Exception:
            pass
        ob.model = extract_model(m, inputs, ufuns)
    else:
        ob.status = 'unknown'
        ob.note = (ob.note + ' ' + s.reason_unknown()).strip()
    ob.time = time.time() - t0
    return ob


def flat_terms(inputs):
    out = []

    def rec(v):
        if isinstance(v, (list, tuple)):
            for x in v:
                rec(x)
        elif isinstance(v, dict):
            for x in v.values():
                rec(x)
        elif is_sym(v):
            out.append(v)
    rec(inputs)
    return out


def dyadic_constraints(inputs, denom=16, bound=1024):
    cs = []
    for i, t in enumerate(flat_terms(inputs)):
        if z3.is_real(t):
            k = z3.Int(f'dy!{i}')
            cs.append(t * denom == z3.ToReal(k))
            cs.append(z3.And(k >= -bound * denom, k <= bound * denom))
    return cs


def extract_model(m, inputs, ufuns=None):
    out = {}
    for name, f in (ufuns or {}).items():
        try:
            fi = m[f]
            if fi is None:
                continue
            ent = {}
            for i in range(fi.num_entries()):
                e = fi.entry(i)
                key = ','.join(str(model_value(m, e.arg_value(j))) for j in range(e.num_args()))
                ent[key] = str(model_value(m, e.value()))
            out['ufun:' + name] = {'entries': ent, 'else': str(model_value(m, fi.else_value()))}
        except Exception:
            pass

    def conv(v):
        if isinstance(v, (list, tuple)):
            return [conv(x) for x in v]
        if isinstance(v, dict):
            return {k: conv(x) for k, x in v.items()}
        if is_sym(v):
            x = model_value(m, v)
            return str(x) if not isinstance(x, (int, bool)) else x
        return v
    for k, v in inputs.items():
        out[k] = conv(v)
    return out


# ------------------------------------------------------------------------------------------ real relaxation
def _has_quantifier(fs):
    seen = set()

    def rec(e):
        if e.get_id() in seen:
            return False
        seen.add(e.get_id())
        if z3.is_quantifier(e):
            return True
        return any(rec(c) for c in e.children())
    return any(rec(f) for f in fs)


def relax_to_reals(formulas):
    """Int -> Real relaxation of a list of formulas (returns None if an operator is not handled).
    ToInt(t) becomes a fresh real v with  v <= t < v + 1, v is a lower bound that is monotone in t (pairwise instances)."""
    cache = {}
    floors = []          # (arg_real, var)
    extra = []
    K = z3

    def conv(e):
        i = e.get_id()
        if i in cache:
            return cache[i]
        r = conv1(e)
        cache[i] = r
        return r

    def conv1(e):
        if K.is_quantifier(e):
            raise ValueError('quantifier')
        if K.is_int_value(e):
            return K.RealVal(e.as_long())
        if K.is_rational_value(e) or K.is_true(e) or K.is_false(e):
            return e
        d = e.decl()
        k = d.kind()
        ch = e.children()
        if K.is_const(e) and k == K.Z3_OP_UNINTERPRETED:
            if K.is_int(e):
                return K.Real('rlx!' + str(e))
            return e
        if k == K.Z3_OP_TO_REAL:
            return conv(ch[0])
        if k == K.Z3_OP_TO_INT:
            a = conv(ch[0])
            v = K.Real(f'floor!{len(floors)}')
            floors.append((a, v))
            extra.append(K.And(v <= a, a < v + 1, K.Implies(a >= 0, v >= 0), K.Implies(a >= 1, v >= 1), K.Implies(a < 0, v <= -1)))
            return v
        if k == K.Z3_OP_IS_INT:
            return K.BoolVal(True)
        c = [conv(x) for x in ch]
        if k == K.Z3_OP_ADD:
            return K.Sum(c)
        if k == K.Z3_OP_MUL:
            return K.Product(c)
        if k == K.Z3_OP_SUB:
            r = c[0]
            for x in c[1:]:
                r = r - x
            return r
        if k == K.Z3_OP_UMINUS:
            return -c[0]
        if k == K.Z3_OP_DIV:
            return c[0] / c[1]
        if k in (K.Z3_OP_IDIV, K.Z3_OP_MOD, K.Z3_OP_REM):
            if not K.is_int_value(ch[1]) or ch[1].as_long() <= 0:
                raise ValueError('int division by a non-constant')
            b = ch[1].as_long()
            q = K.Real(f'floor!{len(floors)}')
            floors.append((c[0] / b, q))
            extra.append(K.And(q * b <= c[0], c[0] < q * b + b, K.Implies(c[0] >= 0, q >= 0), K.Implies(c[0] >= b, q >= 1)))
            if k == K.Z3_OP_IDIV:
                return q
            return c[0] - q * b
        if k == K.Z3_OP_LE:
            return c[0] <= c[1]
        if k == K.Z3_OP_LT:
            return c[0] < c[1]
        if k == K.Z3_OP_GE:
            return c[0] >= c[1]
        if k == K.Z3_OP_GT:
            return c[0] > c[1]
        if k == K.Z3_OP_EQ:
            return c[0] == c[1]
        if k == K.Z3_OP_DISTINCT:
            return K.Distinct(*c)
        if k == K.Z3_OP_ITE:
            return K.If(c[0], c[1], c[2])
        if k == K.Z3_OP_AND:
            return K.And(*c)
        if k == K.Z3_OP_OR:
            return K.Or(*c)
        if k == K.Z3_OP_NOT:
            return K.Not(c[0])
        if k == K.Z3_OP_IMPLIES:
            return K.Implies(c[0], c[1])
        if k == K.Z3_OP_XOR:
            return K.Xor(c[0], c[1])
        if k == K.Z3_OP_UNINTERPRETED:
            raise ValueError('uninterpreted function')
        raise ValueError(f'operator {d.name()}')
    try:
        out = [conv(f) for f in formulas]
    except ValueError:
        return None
    for i in range(len(floors)):
        for j in range(len(floors)):
            if i != j:
                a, v = floors[i]
                b, w = floors[j]
                extra.append(K.Implies(a <= b, v <= w))
                extra.append(K.Implies(v < w, v + 1 <= w))          # floors are integers: distinct floors differ by at least one
    return out + extra


def _vars(e, acc=None, seen=None):
    acc = set() if acc is None else acc
    seen = set() if seen is None else seen
    stack = [e]
    while stack:
        x = stack.pop()
        i = x.get_id()
        if i in seen:
            continue
        seen.add(i)
        if z3.is_const(x) and x.decl().kind() == z3.Z3_OP_UNINTERPRETED:
            acc.add(i)
        elif z3.is_quantifier(x):
            stack.append(x.body())
        else:
            stack.extend(x.children())
    return acc


def _relevant(pc, goal):
    gv = _vars(goal)
    return [c for c in pc if _vars(c) & gv]


def random_refute(ob, inputs, tries=24):
    """counter-model search for obligations the solvers leave open (typically polynomial identities that do NOT hold):
    a model of the path condition fixes the variables it mentions, every other input gets a random small dyadic value, and the
    negated obligation is *evaluated* under that total assignment.  A hit is a genuine counter-model; a miss proves nothing."""
    import random
    rnd = random.Random(12345)

    def draw():
        u = rnd.random()
        if u < 0.7:
            return z3.RealVal(rnd.randint(-16, 24)) / 8                 # small dyadics
        if u < 0.9:
            return z3.RealVal(rnd.choice((-1, 1)) * rnd.randint(8, 64))  # medium
        return z3.RealVal(rnd.choice((-1, 1)) * rnd.choice((100, 1024, 10000)))
    terms = flat_terms(inputs)
    if not terms or _has_quantifier(list(ob.pc) + [ob.formula]):
        return None
    pcv = set()
    for c in ob.pc:
        _vars(c, pcv)
    s = z3.Solver()
    s.set('timeout', 5000)
    s.add(*ob.pc)
    if s.check() != z3.sat:
        return None
    base = s.model()
    for k in range(tries):
        m = base
        if k > 0:
            s.push()
            # diversify the path-condition model a little
            for t in terms:
                if t.get_id() in pcv and z3.is_real(t) and rnd.random() < 0.25:
                    s.add(t == draw())
            if s.check() == z3.sat:
                m = s.model()
            s.pop()
        s2 = z3.Solver()
        s2.set('timeout', 5000)
        for t in terms:
            if t.get_id() in pcv:
                s2.add(t == m.eval(t, model_completion=True))
            elif z3.is_real(t):
                s2.add(t == draw())
            elif z3.is_int(t):
                s2.add(t == rnd.randint(0, 4))
            elif z3.is_bool(t):
                s2.add(t == (rnd.random() < 0.5))
        s2.add(*ob.pc)
        s2.add(z3.Not(ob.formula))
        if s2.check() == z3.sat:
            return s2.model()
    return None
