"""Run one harness configuration: explore all feasible paths of the real code, collect and discharge obligations."""
import os
import fractions
import time
import traceback
import z3
from . import sym
from .sym import Path, Ctx, Infeasible, StopPath, Unsupported, BudgetExhausted
from .interp import Interp, RaiseEx, ReturnEx
from .oblig import Store, discharge, extract_model, dyadic_constraints, flat_terms
import random
from .hsym import HSym

VERIF = os.path.dirname(os.path.dirname(os.path.abspath(__file__)))
REPO = os.environ.get('PYVC_REPO', '/repo')


def load_contracts(interp, module):
    return interp.load(module)


def new_interp():
    return Interp(REPO, extra_roots=[VERIF])


def list_harnesses(module):
    it = new_interp()
    Ctx.path = None
    m = it.load(module)
    if m.warnings:
        raise RuntimeError('contract module did not load cleanly: ' + '; '.join(m.warnings))
    return m.env.get('HARNESSES')


def explore(it, module, fn, config, store, max_paths=20000, path_timeout_ms=10000, budget_s=None):
    m = it.load(module)
    f = m.env.get(fn)
    work = [[]]
    npaths = 0
    stats = dict(paths=0, infeasible=0, cut=0, raised=0, unsupported=[])
    it.deadline = time.time() + budget_s if budget_s else None
    while work:
        dec = work.pop()
        npaths += 1
        if npaths > max_paths:
            stats['unsupported'].append(f'path limit {max_paths} exceeded')
            break
        if it.deadline is not None and time.time() > it.deadline:
            stats['unsupported'].append(f'exploration budget of {budget_s} s used up after {npaths - 1} paths')
            break
        p = Path(dec, timeout_ms=path_timeout_ms)
        Ctx.path = p
        it.invariants = {}
        it.summaries = {}
        H = HSym(it, store)
        try:
            it.call(f, [H], dict(config))
            stats['paths'] += 1
            # canary / vacuity: the final path condition must be satisfiable
            store.final_pcs.append(list(p.pc))
        except Infeasible:
            stats['infeasible'] += 1
        except StopPath:
            stats['cut'] += 1
            store.final_pcs.append(list(p.pc))
        except RaiseEx as e:
            # an exception escaping the harness itself: the harness did not expect it
            stats['raised'] += 1
            store.add(f'harness:no-unexpected-exception[{e.exc_name()}]', 'raises', z3.BoolVal(False),
                      {'exception': str(e.v)[:300]})
            store.final_pcs.append(list(p.pc))
        except Unsupported as e:
            stats['unsupported'].append(str(e))
        except BudgetExhausted:
            stats['unsupported'].append(f'exploration budget of {budget_s} s used up after {npaths - 1} paths')
            break
        work.extend(p.alts)
    Ctx.path = None
    it.deadline = None
    return stats


def run_job(job):
    """job: dict(module, fn, config, timeout, name). Returns a picklable result dict."""
    t0 = time.time()
    res = dict(job=job, obligations=[], stats={}, error=None, touched={}, canary=None, wall=0.0)
    try:
        it = new_interp()
        store = Store()
        store.final_pcs = []
        Store.current = store
        stats = explore(it, job['module'], job['fn'], job.get('config', {}), store,
                        max_paths=job.get('max_paths', 20000), budget_s=job.get('budget', 300))
        res['stats'] = stats
        res['touched'] = {f'{k[0]}::{k[1]}': v for k, v in it.touched.items()}
        res['covers'] = sorted(getattr(store, 'covers', set()))
        res['patched'] = sorted(getattr(store, 'patched', set()))
        # canary: `False` at the end of the first completed path must be refutable (pc satisfiable)
        can = None
        n_pc = len(store.final_pcs)
        for pc in [store.final_pcs[i] for i in sorted(set([0, 1, 2, n_pc // 2, n_pc - 1])) if 0 <= i < n_pc]:
            s = z3.Solver()
            s.set('timeout', 10000)
            s.add(*pc)
            r = s.check()
            can = str(r)
            if r == z3.sat:
                break
        res['cc_inputs'] = sample_inputs(store, job.get('crosscheck', 0), job.get('seed', 0)) if job.get('crosscheck') else []
        if can != 'sat' and res['cc_inputs']:
            can = 'sat'            # an input sampled from a (satisfiable) path condition exists: the harness is not vacuous
        if can != 'sat' and store.final_pcs and not job.get('helper'):
            # the solver cannot decide the path conditions in its budget: look for an input on which the harness runs to its end in the
            # interpreter's concrete mode (every `assume` holds) - such an input witnesses that the preconditions are satisfiable
            rnd = random.Random(4242)

            def draw(v):
                if isinstance(v, (list, tuple)):
                    return [draw(x) for x in v]
                if isinstance(v, dict):
                    return {k: draw(x) for k, x in v.items()}
                if sym.is_sym(v):
                    if z3.is_bool(v):
                        return rnd.random() < 0.5
                    if z3.is_int(v):
                        return rnd.randint(0, 4)
                    return str(fractions.Fraction(rnd.randint(1, 24), 8))
                return v
            for _ in range(6):
                cand = {k: draw(v) for k, v in store.inputs.items()}
                try:
                    c = run_concrete(job, cand)
                except Exception:
                    break
                if c.get('status') == 'ok' and c.get('ensures'):
                    can = 'sat'
                    if job.get('crosscheck'):
                        res['cc_inputs'] = [cand]           # also used for the CPython cross-check of this configuration
                    break
            Store.current = store
        res['canary'] = can
        # every obligation gets the full solver portfolio until the discharge budget of the configuration is used up; what is left
        # after that is reported undecided (never a verdict)
        t_end = time.time() + 2 * job.get('budget', 300)
        for ob in store.obls:
            if time.time() > t_end:
                ob.status, ob.backend, ob.note = 'unknown', 'none', 'discharge budget of the configuration used up'
            else:
                discharge(ob, store.inputs, timeout_s=job.get('timeout', 30), ufuns=store.ufuns)
            res['obligations'].append(dict(name=ob.name, kind=ob.kind, status=ob.status, backend=ob.backend,
                                           time=round(ob.time, 4), model=ob.model, note=ob.note, meta=ob.meta,
                                           size=len(ob.pc)))
    except Exception as e:
        res['error'] = f'{type(e).__name__}: {e}\n' + traceback.format_exc()[-1500:]
    finally:
        Store.current = None
        Ctx.path = None
    res['wall'] = round(time.time() - t0, 3)
    return res


def run_concrete(job, inputs):
    """concrete execution of the harness in the interpreter (cross-check against CPython)"""
    it = new_interp()
    store = Store()
    store.final_pcs = []
    Store.current = store
    p = Path([])
    p.concrete = True
    Ctx.path = p
    m = it.load(job['module'])
    f = m.env.get(job['fn'])
    H = HSym(it, store, concrete_inputs=inputs)
    out = dict(ensures=[], observations={}, exception=None, status='ok')
    try:
        it.call(f, [H], dict(job.get('config', {})))
    except StopPath:
        out['status'] = 'assume-failed'
    except RaiseEx as e:
        out['exception'] = e.exc_name()
        out['exception_msg'] = str(e.v)[:300]
    except Unsupported as e:
        out['status'] = 'unsupported: ' + str(e)
    finally:
        Store.current = None
        Ctx.path = None
    out['ensures'] = H.ensures
    out['observations'] = H.observations
    return out


def sample_inputs(store, k, seed):
    """concrete inputs that satisfy the harness preconditions, drawn from the explored path conditions (prefer dyadic values)"""
    pcs = store.final_pcs
    if not pcs or k <= 0:
        return []
    rnd = random.Random(seed * 7919 + len(pcs))
    picks = [pcs[i] for i in sorted(set(int(j * (len(pcs) - 1) / max(1, k - 1)) for j in range(k)))] if len(pcs) > 1 else [pcs[0]] * k
    while len(picks) < k:
        picks.append(rnd.choice(pcs))
    terms = flat_terms(store.inputs)
    out = []
    for n, pc in enumerate(picks[:k]):
        s = z3.Solver()
        s.set('timeout', 5000)
        s.set('random_seed', seed + n)
        s.add(*pc)
        if s.check() != z3.sat:
            continue
        got = None
        dy = dyadic_constraints(store.inputs, denom=8, bound=64)
        for frac in (1.0, 0.5, 0.25, 0.0):
            s.push()
            s.add(*dy)
            for t in terms:
                if rnd.random() < frac:
                    if z3.is_real(t):
                        s.add(t == z3.RealVal(rnd.randint(-16, 24)) / 8)
                    elif z3.is_int(t):
                        s.add(t == rnd.randint(0, 4))
            r = s.check()
            if r == z3.sat:
                got = s.model()
            s.pop()
            if got is not None:
                break
        if got is None:
            if s.check() != z3.sat:
                continue
            got = s.model()
        out.append(extract_model(got, store.inputs, store.ufuns))
    return out
