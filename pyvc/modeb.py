"""Mode B: symbolic-length sequences, symbolic references and loop-invariant cuts.

A `for` over an SSeq is cut at the loop head with the invariant registered for (function qualname, loop ordinal):
  inv-init  : invariant at index 0 with the entry state
  inv-pres  : from a havocked state satisfying the invariant at a fresh index i in [0,n), one execution of the body
              re-establishes it at i+1 (paths leaving the loop by return/raise/break carry on to the function exit)
  use       : after the loop the invariant holds at index n (assumed; the post-condition is proved from it)
"""
import ast
import z3
from .sym import PATH, StopPath, Unsupported, is_sym, s_and, s_not, s_ite, truth
from .oblig import oblige


class SymRef:
    """symbolic reference (z3 Int id) to an object/callable; id 0 is None.  `apply` gives the meaning of a call."""
    def __init__(self, term, apply=None, label='ref'):
        self.t = term if is_sym(term) else z3.IntVal(term)
        self.apply = apply
        self.label = label

    def __repr__(self):
        return f'<symref {self.t}>'

    def truth(self):
        return self.t != 0

    @staticmethod
    def term_of(v):
        if v is None:
            return z3.IntVal(0)
        if isinstance(v, SymRef):
            return v.t
        raise Unsupported(f'comparison of a symbolic reference with {type(v).__name__}')

    @staticmethod
    def compare(o, a, b):
        ta, tb = SymRef.term_of(a), SymRef.term_of(b)
        if o == '==':
            return ta == tb
        if o == '!=':
            return ta != tb
        raise Unsupported('ordering of references')

    @staticmethod
    def merge(c, a, b):
        ap = a.apply if isinstance(a, SymRef) else (b.apply if isinstance(b, SymRef) else None)
        return SymRef(z3.If(c, SymRef.term_of(a), SymRef.term_of(b)), ap)


class SSeq:
    """sequence of symbolic length n; elem(i) builds the model value of the i-th element from a z3 Int term"""
    def __init__(self, n, elem, name='seq'):
        self.n, self.elem, self.name = n, elem, name


class SymDict:
    """dictionary abstraction with one symbolic membership bit per queried key (keys are concrete tokens)"""
    def __init__(self, has, get):
        self.has, self.get = has, get

    def contains(self, k):
        return self.has(k)

    def __getitem__(self, k):
        return self.get(k)


class LoopSpec:
    """invariant(envview, i) -> z3 Bool;  havoc: {local name: maker(path) -> fresh model value}"""
    def __init__(self, invariant, havoc, label=''):
        self.invariant, self.havoc, self.label = invariant, havoc, label


class EnvView:
    def __init__(self, env):
        self._env = env

    def __getattr__(self, n):
        return self._env.get(n)

    def __getitem__(self, n):
        return self._env.get(n)


def for_sseq(interp, s, env, seq):
    qual = env.get('__qualname__')
    ordc = env.get('__loopord__')
    k = ordc[0]
    ordc[0] += 1
    spec = interp.invariants.get((qual, k))
    if spec is None:
        raise Unsupported(f'loop {k} of {qual} iterates a symbolic-length sequence and has no invariant')
    p = PATH()
    if s.orelse:
        raise Unsupported('for/else over a symbolic sequence')
    tag = f'{qual}/loop{k}'
    oblige(f'{tag}:inv-init', 'inv-init', spec.invariant(EnvView(env), z3.IntVal(0)))
    # havoc the loop-carried locals
    assigned = sorted({n.id for st in s.body for n in ast.walk(st) if isinstance(n, ast.Name) and isinstance(n.ctx, ast.Store)}
                      - {t.id for t in ast.walk(s.target) if isinstance(t, ast.Name)})
    for n in assigned:
        if n not in spec.havoc:
            if not env.has(n):
                continue                 # purely loop-local temporary
            raise Unsupported(f'loop-carried local {n} of {tag} has no havoc declaration')
    which = p.choose(2)
    for n in assigned:
        if n in spec.havoc:
            env.set(n, spec.havoc[n](p))
    if which == 0:
        i = p.fresh('i', z3.IntSort())
        p.assume(z3.And(i >= 0, i < seq.n))
        p.assume(spec.invariant(EnvView(env), i))
        interp.assign(s.target, seq.elem(i), env)
        from .interp import ContinueEx, BreakEx
        try:
            interp.block(s.body, env)
        except ContinueEx:
            pass
        except BreakEx:
            return                        # leaves the loop: continue after it with the current state
        oblige(f'{tag}:inv-pres', 'inv-pres', spec.invariant(EnvView(env), i + 1))
        raise StopPath()
    else:
        p.assume(spec.invariant(EnvView(env), seq.n))
