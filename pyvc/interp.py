"""Symbolic interpreter over the python AST of the real source (front-end, class table, statements, expressions).

The verified text is the code in the working tree: modules are located under the repo root at run time, parsed with
`ast` and executed here.  Dropped by extraction (and only this): docstrings, type annotations, typing.cast,
`with torch.no_grad()` (body kept), print/warn, device/dtype arguments, .to()/.cpu()/.detach()/.float() (identity
on the value model).  Anything outside the supported subset raises Unsupported -> undecided, never a verdict.
"""
import ast
import copy as _copy
import hashlib
import math
import os
import time
import z3
from . import sym
from .sym import (Unsupported, BudgetExhausted, Infeasible, StopPath, PATH, is_sym, truth, to_real, to_num, s_add, s_sub, s_mul, s_div,
                  s_floordiv, s_mod, s_pow, s_abs, s_cmp, s_ite, s_min, s_max, s_and, s_or, s_not, s_neg, s_round,
                  s_floor, s_ceil, as_bool, concretize_int)
from .tensor import Tensor, s_trunc
from .oblig import oblige, safety_nonzero, Store


# ------------------------------------------------------------------------------------------ runtime objects
class ReturnEx(Exception):
    def __init__(self, v):
        self.v = v


class ContinueEx(Exception):
    pass


class BreakEx(Exception):
    pass


class RaiseEx(Exception):
    """an exception raised by the interpreted program; .v is a host exception instance or an Obj"""
    def __init__(self, v):
        self.v = v

    def exc_name(self):
        v = self.v
        if isinstance(v, Obj):
            return v.cls.name
        if isinstance(v, BaseException):
            return type(v).__name__
        if isinstance(v, type):
            return v.__name__
        if isinstance(v, (ClassInfo, StubClass)):
            return v.name
        return str(v)

    def __str__(self):
        return f'RaiseEx({self.exc_name()}: {self.v})'


HOST_EXC = (KeyError, IndexError, ValueError, TypeError, ZeroDivisionError, AttributeError, StopIteration,
            AssertionError, RuntimeError, NotImplementedError, NameError)


class ClassInfo:
    def __init__(self, name, mod, node, bases, interp):
        self.name, self.mod, self.node, self._bases = name, mod, node, bases
        self.members = {}      # name -> dict(kind, fn)
        self.cattrs = {}       # class-level attributes
        self.qual = name
        for st in node.body:
            if isinstance(st, ast.FunctionDef):
                kind = 'method'
                for d in st.decorator_list:
                    ds = ast.unparse(d)
                    if ds == 'property':
                        kind = 'property'
                    elif ds == 'staticmethod':
                        kind = 'static'
                    elif ds == 'classmethod':
                        kind = 'classmethod'
                    elif ds.endswith('.setter'):
                        kind = 'setter'
                    elif ds.endswith('.deleter'):
                        kind = 'deleter'
                    elif ds in ('abstractmethod', 'abc.abstractmethod', 'torch.no_grad()'):
                        pass
                    else:
                        kind = 'unsupported:' + ds
                key = st.name + ('#set' if kind == 'setter' else '#del' if kind == 'deleter' else '')
                self.members[key] = dict(kind=kind, fn=st)

    def mro(self):
        out = [self]
        for b in self._bases:
            if isinstance(b, (ClassInfo, StubClass)):
                for c in b.mro():
                    if c not in out:
                        out.append(c)
        return out

    def __repr__(self):
        return f'<class {self.name}>'


class StubClass:
    """a library class specified by host-python members: name -> f(interp, self, *args)"""
    def __init__(self, name, members=None, bases=(), props=None):
        self.name, self.members_py, self._bases = name, members or {}, tuple(bases)
        self.props_py = props or {}
        self.cattrs = {}

    def mro(self):
        out = [self]
        for b in self._bases:
            for c in b.mro():
                if c not in out:
                    out.append(c)
        return out

    def __repr__(self):
        return f'<stub {self.name}>'


class Obj:
    def __init__(self, cls):
        self.cls = cls
        self.attrs = {}

    def __repr__(self):
        return f'<{self.cls.name} object>'


class Closure:
    def __init__(self, fn, env, cls=None, mod=None):
        self.fn, self.env, self.cls, self.mod = fn, env, cls, mod
        self.name = fn.name

    def __repr__(self):
        return f'<function {self.fn.name}>'


class Bound:
    def __init__(self, obj, clo):
        self.obj, self.clo = obj, clo

    def __eq__(self, o):
        return isinstance(o, Bound) and o.obj is self.obj and o.clo.fn is self.clo.fn

    def __hash__(self):
        return hash((id(self.obj), id(self.clo.fn)))

    def __repr__(self):
        return f'<bound {self.clo.fn.name} of {self.obj}>'


class PyBound:
    def __init__(self, obj, f, name=''):
        self.obj, self.f, self.name = obj, f, name

    def __eq__(self, o):
        return isinstance(o, PyBound) and o.obj is self.obj and o.f is self.f

    def __hash__(self):
        return hash((id(self.obj), id(self.f)))


class SuperProxy:
    def __init__(self, obj, after):
        self.obj, self.after = obj, after


class NS:
    """namespace stub for library modules"""
    def __init__(self, _name='ns', **kw):
        self.__dict__.update(kw)
        self._name = _name

    def __repr__(self):
        return f'<ns {self._name}>'


class Missing:
    """placeholder for a library name outside the model; using it is Unsupported"""
    def __init__(self, name):
        self.name = name

    def __repr__(self):
        return f'<missing {self.name}>'


class Env:
    __slots__ = ('vars', 'parent')

    def __init__(self, parent=None):
        self.vars = {}
        self.parent = parent

    def get(self, n):
        e = self
        while e is not None:
            if n in e.vars:
                return e.vars[n]
            e = e.parent
        raise NameError(n)

    def has(self, n):
        e = self
        while e is not None:
            if n in e.vars:
                return True
            e = e.parent
        return False

    def set(self, n, v):
        self.vars[n] = v


class Module:
    def __init__(self, dotted, path):
        self.dotted, self.path = dotted, path
        self.env = Env()
        self.is_pkg = path.endswith('__init__.py')
        self.source = ''
        self.warnings = []


class SymCallable:
    """an uninterpreted function value (cost functions, constraints, model.get_cost ...)"""
    def __init__(self, name, fn):
        self.name, self.fn = name, fn

    def __repr__(self):
        return f'<ufun {self.name}>'


class NoGrad:
    def __enter__(self):
        return self

    def __exit__(self, *a):
        return False

    def __call__(self, f=None):
        return f if f is not None else self


def _has_yield(fn):
    for n in ast.walk(fn):
        if isinstance(n, (ast.Yield, ast.YieldFrom)):
            # make sure it is not inside a nested function
            return True
    return False


# ------------------------------------------------------------------------------------------ interpreter
class Interp:
    MAX_DEPTH = 120
    MAX_LOOP = 20000

    def __init__(self, repo_root, extra_roots=()):
        self.repo = repo_root
        self.roots = [repo_root] + list(extra_roots)
        self.modules = {}
        self.in_hasattr = False
        self.tracing = None      # fxtrace.TraceCtx while a torch.fx Tracer model executes a forward on Proxy values
        self.touched = {}        # (relpath, qualname) -> sha1 of the function source: functions actually executed
        self.summaries = {}      # (dotted module, qualname) -> host callable(interp, clo, args, kwargs)
        self.invariants = {}     # (qualname, loop ordinal) -> spec (mode B)
        self.depth = 0
        self.libs = {}
        self.loop_counter = 0
        from . import torchlib
        torchlib.install(self)

    # ------------------------------------------------------------------ front-end
    def find_module(self, dotted):
        rel = dotted.replace('.', '/')
        for root in self.roots:
            for cand in (os.path.join(root, rel + '.py'), os.path.join(root, rel, '__init__.py')):
                if os.path.exists(cand):
                    return cand
        return None

    def load(self, dotted):
        if dotted in self.modules:
            return self.modules[dotted]
        path = self.find_module(dotted)
        if path is None:
            raise Unsupported(f'module {dotted} not found')
        m = Module(dotted, path)
        self.modules[dotted] = m
        m.source = open(path).read()
        tree = ast.parse(m.source)
        m.env.set('__name__', dotted)
        for st in tree.body:
            try:
                self.exec_toplevel(st, m)
            except Unsupported as e:
                m.warnings.append(f'{path}:{getattr(st, "lineno", 0)}: top-level statement skipped: {e}')
            except RaiseEx as e:
                m.warnings.append(f'{path}:{getattr(st, "lineno", 0)}: top-level statement raised {e}')
        return m

    def lib_module(self, name):
        if name in self.libs:
            return self.libs[name]
        root = name.split('.')[0]
        if root in self.libs:
            v = self.libs[root]
            for part in name.split('.')[1:]:
                v = getattr(v, part, None)
                if v is None:
                    return Missing(name)
            return v
        return Missing(name)

    def exec_toplevel(self, st, m):
        if isinstance(st, ast.Import):
            for a in st.names:
                if a.name.split('.')[0] == 'plinio' or self.find_module(a.name.split('.')[0]):
                    # a repository package: bound lazily (the module is loaded at the first attribute access - circular imports)
                    if not self.find_module(a.name):
                        raise Unsupported('plain import of an unknown repo package ' + a.name)
                    if a.asname:
                        m.env.set(a.asname, ModuleRef(self, a.name))
                    else:
                        m.env.set(a.name.split('.')[0], ModuleRef(self, a.name.split('.')[0]))
                    continue
                if a.asname:
                    m.env.set(a.asname, self.lib_module(a.name))
                else:
                    m.env.set(a.name.split('.')[0], self.lib_module(a.name.split('.')[0]))
        elif isinstance(st, ast.ImportFrom):
            if st.level > 0:
                base = m.dotted.split('.')
                base = base[:len(base) - st.level + (1 if m.is_pkg else 0)]
                dotted = '.'.join(base + ([st.module] if st.module else []))
            else:
                dotted = st.module
            if st.level > 0 or self.find_module(dotted):
                sub = self.load(dotted)
                for a in st.names:
                    if a.name == '*':
                        for k, v in sub.env.vars.items():
                            if not k.startswith('_'):
                                m.env.set(k, v)
                        continue
                    try:
                        m.env.set(a.asname or a.name, sub.env.get(a.name))
                    except NameError:
                        # maybe a sub-module
                        if self.find_module(dotted + '.' + a.name):
                            m.env.set(a.asname or a.name, ModuleRef(self, dotted + '.' + a.name))
                        else:
                            m.env.set(a.asname or a.name, Missing(dotted + '.' + a.name))
            else:
                src = self.lib_module(dotted)
                for a in st.names:
                    v = getattr(src, a.name, None) if not isinstance(src, Missing) else None
                    m.env.set(a.asname or a.name, v if v is not None else Missing(dotted + '.' + a.name))
        elif isinstance(st, ast.ClassDef):
            self.stmt(st, m.env, m)
        elif isinstance(st, ast.FunctionDef):
            m.env.set(st.name, Closure(st, m.env, None, m))
        elif isinstance(st, ast.Expr) and isinstance(st.value, ast.Constant):
            pass                                       # docstring
        elif isinstance(st, ast.If) and ast.unparse(st.test).startswith('__name__'):
            pass
        else:
            self.cur_mod = m
            self.stmt(st, m.env, m)

    # ------------------------------------------------------------------ attribute protocol
    def find_member(self, cls, name, after=None):
        mro = cls.mro()
        if after is not None:
            mro = mro[mro.index(after) + 1:]
        for c in mro:
            if isinstance(c, ClassInfo):
                if name in c.members:
                    return c, c.members[name]
                if name in c.cattrs:
                    return c, dict(kind='cattr', value=c.cattrs[name])
            else:
                if name in c.members_py:
                    return c, dict(kind='py', fn=c.members_py[name])
                if name in c.props_py:
                    return c, dict(kind='pyprop', fn=c.props_py[name])
                if name in c.cattrs:
                    return c, dict(kind='cattr', value=c.cattrs[name])
        return None, None

    def is_nn_module(self, o):
        return isinstance(o, Obj) and self.libs['torch'].nn.Module in o.cls.mro()

    def getattr(self, o, name):
        if self.tracing is not None and type(o).__name__ in ('Proxy', 'ProxyAttr'):
            from . import fxtrace as FT
            return FT.ProxyAttr(o if isinstance(o, FT.Proxy) else o.value(), name)
        if isinstance(o, Obj):
            a = o.attrs
            if name in a:
                return a[name]
            if name == '__module__':
                return o.cls.mod.dotted if isinstance(o.cls, ClassInfo) else 'torch.' + '.'.join(o.cls.name.split('.')[:-1] + ['modules'])
            if '_parameters' in a:
                for d in ('_parameters', '_buffers', '_modules'):
                    dd = a.get(d)
                    if dd is not None and name in dd:
                        return dd[name]
            if name == '__dict__':
                return a
            if name == '__class__':
                return o.cls
            c, mem = self.find_member(o.cls, name)
            if mem is None:
                c2, ga = self.find_member(o.cls, '__getattr__')
                if ga is not None and ga['kind'] == 'method':
                    return self.call(Bound(o, Closure(ga['fn'], c2.mod.env, c2, c2.mod)), [name], {})
                if self._is_standin(o) and not self.in_hasattr:
                    # a stand-in object defined by the contract (not a real class of the program) is asked for something it does not model:
                    # a limitation of the contract, never a verdict about the code
                    raise Unsupported(f"stand-in class {o.cls.name} of the contract does not model '{name}'")
                raise RaiseEx(AttributeError(f"'{o.cls.name}' object has no attribute '{name}'"))
            return self.bind_member(o, c, mem, name)
        if isinstance(o, SuperProxy):
            c, mem = self.find_member(o.obj.cls, name, after=o.after)
            if mem is None:
                raise RaiseEx(AttributeError(f'super object has no attribute {name}'))
            return self.bind_member(o.obj, c, mem, name)
        if isinstance(o, ClassInfo):
            if name == '__name__':
                return o.name
            c, mem = self.find_member(o, name)
            if mem is None:
                raise RaiseEx(AttributeError(f'type object {o.name} has no attribute {name}'))
            k = mem['kind']
            if k == 'cattr':
                return mem['value']
            if k == 'py':
                return PyClassMethod(o, mem['fn'], name)
            if k == 'pyprop':
                raise Unsupported('property access on a class')
            if k == 'classmethod':
                return Bound(o, Closure(mem['fn'], c.mod.env, c, c.mod))
            return Closure(mem['fn'], c.mod.env, c, c.mod)
        if isinstance(o, StubClass):
            if name == '__name__':
                return o.name.split('.')[-1]
            c, mem = self.find_member(o, name)
            if mem is None:
                raise RaiseEx(AttributeError(f'type object {o.name} has no attribute {name}'))
            if mem['kind'] == 'cattr':
                return mem['value']
            return PyClassMethod(o, mem['fn'], name)
        if isinstance(o, ModuleRef):
            return o.get(name)
        if isinstance(o, Missing):
            return Missing(o.name + '.' + name)
        if isinstance(o, Closure):
            if name == '__name__':
                return o.fn.name
            raise RaiseEx(AttributeError(name))
        if isinstance(o, Tensor) and name == 'shape':
            return o.shape
        if isinstance(o, NS):
            v = o.__dict__.get(name, _NOTFOUND)
            if v is _NOTFOUND:
                return Missing(o._name + '.' + name)        # library entry point outside the model: using it is Unsupported
            return v
        try:
            return getattr(o, name)
        except AttributeError as e:
            raise RaiseEx(e)

    def bind_member(self, o, c, mem, name):
        k = mem['kind']
        if k == 'cattr':
            return mem['value']
        if k == 'property':
            return self.call(Bound(o, Closure(mem['fn'], c.mod.env, c, c.mod)), [], {})
        if k == 'py':
            return PyBound(o, mem['fn'], name)
        if k == 'pyprop':
            return mem['fn'](self, o)
        if k == 'static':
            return Closure(mem['fn'], c.mod.env, c, c.mod)
        if k == 'classmethod':
            return Bound(o.cls, Closure(mem['fn'], c.mod.env, c, c.mod))
        if k.startswith('unsupported'):
            raise Unsupported(f'decorator {k}')
        return Bound(o, Closure(mem['fn'], c.mod.env, c, c.mod))

    def _is_standin(self, o):
        return isinstance(o, Obj) and isinstance(o.cls, ClassInfo) and o.cls.mod is not None and o.cls.mod.dotted.startswith('contracts.') \
            and '_modules' not in o.attrs and not self.is_exception_class(o.cls)

    def hasattr(self, o, name):
        prev = self.in_hasattr
        self.in_hasattr = True
        try:
            self.getattr(o, name)
            return True
        except RaiseEx as e:
            if e.exc_name() == 'AttributeError':
                return False
            raise
        finally:
            self.in_hasattr = prev

    def setattr(self, o, name, v):
        if isinstance(o, Obj):
            c, mem = self.find_member(o.cls, name + '#set')
            if mem is not None:
                return self.call(Bound(o, Closure(mem['fn'], c.mod.env, c, c.mod)), [v], {})
            c, mem = self.find_member(o.cls, name)
            if mem is not None and mem['kind'] == 'property':
                raise RaiseEx(AttributeError(f"can't set attribute {name}"))
            c, mem = self.find_member(o.cls, '__setattr__')
            if mem is not None and mem['kind'] == 'py':
                return mem['fn'](self, o, name, v)
            o.attrs[name] = v
        elif isinstance(o, Tensor):
            if name == 'data':
                o.data = v
            elif name in ('requires_grad', 'grad', 'name'):
                setattr(o, name, v)
            else:
                raise Unsupported(f'attribute store Tensor.{name}')
        elif isinstance(o, ClassInfo):
            o.cattrs[name] = v
        else:
            try:
                setattr(o, name, v)
            except AttributeError as e:
                raise RaiseEx(e)

    def delattr(self, o, name):
        if isinstance(o, Obj):
            c, mem = self.find_member(o.cls, '__delattr__')
            if mem is not None and mem['kind'] == 'py':
                return mem['fn'](self, o, name)
            if name in o.attrs:
                del o.attrs[name]
                return
            raise RaiseEx(AttributeError(name))
        raise Unsupported('del attribute on host object')

    # ------------------------------------------------------------------ classes / isinstance
    def type_of(self, o):
        if isinstance(o, Obj):
            return o.cls
        if isinstance(o, Tensor):
            return self.libs['torch'].Tensor
        return type(o)

    def isinstance(self, o, c):
        if isinstance(c, tuple):
            return any(self.isinstance(o, x) for x in c)
        if isinstance(c, (ClassInfo, StubClass)):
            if isinstance(o, Obj):
                return c in o.cls.mro()
            if isinstance(o, Tensor):
                t = self.libs['torch']
                if c is t.Tensor:
                    return True
                if c is t.nn.Parameter:
                    return o.is_param
            return False
        if isinstance(c, Missing):
            return False
        if isinstance(c, type):
            if isinstance(o, Obj):
                return c is object
            if is_sym(o):
                if c is int:
                    return z3.is_int(o)
                if c is float:
                    return z3.is_real(o)
                if c is bool:
                    return z3.is_bool(o)
                return False
            return isinstance(o, c)
        raise Unsupported(f'isinstance against {c!r}')

    def issubclass(self, a, c):
        if isinstance(c, tuple):
            return any(self.issubclass(a, x) for x in c)
        if isinstance(a, (ClassInfo, StubClass)):
            return c in a.mro() or c is object
        if isinstance(a, type) and isinstance(c, type):
            return issubclass(a, c)
        return False

    # ------------------------------------------------------------------ calls
    def instantiate(self, cls, args, kwargs):
        o = Obj(cls)
        c, mem = self.find_member(cls, '__init__')
        if mem is not None:
            if mem['kind'] == 'py':
                mem['fn'](self, o, *args, **kwargs)
            else:
                self.call_closure(Closure(mem['fn'], c.mod.env, c, c.mod), [o] + list(args), kwargs)
        elif args or kwargs:
            raise RaiseEx(TypeError(f'{cls.name}() takes no arguments'))
        return o

    def _trace_call(self, tr, f, args, kwargs):
        """torch.fx tracing in progress: calls that involve Proxy values become graph nodes"""
        from . import fxtrace as FT
        if isinstance(f, FT.ProxyAttr):
            return tr.call_method(f, args, kwargs)
        if isinstance(f, Obj):
            if '_modules' in f.attrs:
                r = tr.call_module(f, args, kwargs)
                if r is not None:
                    return r
            return _NOTFOUND
        if isinstance(f, (Bound, Closure, PyBound, PyClassMethod, ClassInfo, StubClass, SymCallable)):
            return _NOTFOUND
        if id(f) in self.fx_functions and (tr.has_proxy(args) or tr.has_proxy(kwargs)):
            return tr.call_function(f, args, kwargs)
        return _NOTFOUND

    def call(self, f, args, kwargs):
        if self.tracing is not None:
            r = self._trace_call(self.tracing, f, args, kwargs)
            if r is not _NOTFOUND:
                return r
        if isinstance(f, Bound):
            return self.call_closure(f.clo, [f.obj] + list(args), kwargs)
        if isinstance(f, Closure):
            return self.call_closure(f, list(args), kwargs)
        if isinstance(f, PyBound):
            return self.host_call(f.f, [self, f.obj] + list(args), kwargs)
        if isinstance(f, PyClassMethod):
            return self.host_call(f.f, [self, f.cls] + list(args), kwargs)
        if isinstance(f, type) and f in self.type_calls:
            return self.type_calls[f](self, *args, **kwargs)
        if isinstance(f, StubClass) and hasattr(f, 'make'):
            return f.make(*args, **kwargs)
        if isinstance(f, (ClassInfo, StubClass)):
            if isinstance(f, ClassInfo) and self.is_exception_class(f):
                o = self.instantiate(f, [], {}) if self.find_member(f, '__init__')[1] is None else self.instantiate(f, args, kwargs)
                o.attrs.setdefault('args', tuple(args))
                return o
            return self.instantiate(f, args, kwargs)
        if isinstance(f, Obj):
            c, mem = self.find_member(f.cls, '__call__')
            if mem is None:
                raise RaiseEx(TypeError(f'{f.cls.name} object is not callable'))
            return self.call(self.bind_member(f, c, mem, '__call__'), args, kwargs)
        if isinstance(f, SymCallable):
            return f.fn(self, *args, **kwargs)
        from .modeb import SymRef
        if isinstance(f, SymRef):
            if f.apply is None:
                raise Unsupported('call of a symbolic reference without a meaning')
            return f.apply(f.t, *args)
        if isinstance(f, Missing):
            raise Unsupported(f'call of library function outside the model: {f.name}')
        if f is super:
            return SuperProxy(args[1], args[0])
        if isinstance(f, InterpBuiltin):
            return f.f(self, *args, **kwargs)
        if isinstance(f, type) and issubclass(f, BaseException):
            return f(*[a if not is_sym(a) else '<sym>' for a in args])
        return self.host_call(f, list(args), kwargs)

    def host_call(self, f, args, kwargs):
        try:
            return f(*args, **kwargs)
        except HOST_EXC as e:
            if getattr(e, '_pyvc_internal', False):
                raise
            raise RaiseEx(e)

    def is_exception_class(self, cls):
        return any(isinstance(b, type) and issubclass(b, BaseException) for c in cls.mro() for b in c._bases)

    def call_closure(self, clo, args, kwargs):
        fn = clo.fn
        key = None
        if clo.mod is not None:
            qual = (clo.cls.name + '.' if clo.cls is not None else '') + fn.name
            key = (clo.mod.dotted, qual)
            summ = self.summaries.get(key)
            if summ is not None:
                return summ(self, clo, args, kwargs)
            rel = os.path.relpath(clo.mod.path, self.repo)
            if (rel, qual) not in self.touched and not rel.startswith('..'):
                seg = ast.get_source_segment(clo.mod.source, fn) or ''
                self.touched[(rel, qual)] = hashlib.sha1(seg.encode()).hexdigest()[:12]
        if self.depth > self.MAX_DEPTH:
            raise Unsupported('call depth exceeded (recursion without a contract?)')
        env = Env(clo.env)
        a = fn.args
        params = [p.arg for p in a.posonlyargs + a.args]
        defaults = [None] * (len(params) - len(a.defaults)) + list(a.defaults)
        if len(args) > len(params) and not a.vararg:
            raise RaiseEx(TypeError(f'{fn.name}() takes {len(params)} positional arguments but {len(args)} were given'))
        used_kw = set()
        for i, p in enumerate(params):
            if i < len(args):
                env.set(p, args[i])
                if p in kwargs:
                    raise RaiseEx(TypeError(f'{fn.name}() got multiple values for argument {p}'))
            elif p in kwargs:
                env.set(p, kwargs[p])
                used_kw.add(p)
            elif defaults[i] is not None:
                env.set(p, self.eval(defaults[i], clo.env))
            else:
                raise RaiseEx(TypeError(f'{fn.name}() missing required argument {p}'))
        if a.vararg:
            env.set(a.vararg.arg, tuple(args[len(params):]))
        for p, d in zip(a.kwonlyargs, a.kw_defaults):
            if p.arg in kwargs:
                env.set(p.arg, kwargs[p.arg])
                used_kw.add(p.arg)
            elif d is not None:
                env.set(p.arg, self.eval(d, clo.env))
            else:
                raise RaiseEx(TypeError(f'{fn.name}() missing keyword argument {p.arg}'))
        rest = {k: v for k, v in kwargs.items() if k not in used_kw}
        if a.kwarg:
            env.set(a.kwarg.arg, rest)
        elif rest:
            raise RaiseEx(TypeError(f'{fn.name}() got an unexpected keyword argument {list(rest)[0]}'))
        env.set('__class__', clo.cls)
        env.set('__qualname__', (clo.cls.name + '.' if clo.cls is not None else '') + fn.name)
        env.set('__loopord__', [0])
        gen = getattr(fn, '_pyvc_gen', None)
        if gen is None:
            gen = fn._pyvc_gen = _has_yield(fn)
        if gen:
            env.set('__yield__', [])
        self.depth += 1
        try:
            self.block(fn.body, env)
        except ReturnEx as r:
            if gen:
                return iter(env.get('__yield__'))
            return r.v
        finally:
            self.depth -= 1
        if gen:
            return iter(env.get('__yield__'))
        return None

    # ------------------------------------------------------------------ statements
    def block(self, stmts, env):
        for s in stmts:
            self.stmt(s, env)

    def assign(self, tgt, v, env):
        if isinstance(tgt, ast.Name):
            env.set(tgt.id, v)
        elif isinstance(tgt, ast.Attribute):
            self.setattr(self.eval(tgt.value, env), tgt.attr, v)
        elif isinstance(tgt, (ast.Tuple, ast.List)):
            vs = list(self.iterate(v))
            if any(isinstance(t, ast.Starred) for t in tgt.elts):
                i = [isinstance(t, ast.Starred) for t in tgt.elts].index(True)
                n_after = len(tgt.elts) - i - 1
                for t, x in zip(tgt.elts[:i], vs[:i]):
                    self.assign(t, x, env)
                self.assign(tgt.elts[i].value, list(vs[i:len(vs) - n_after]), env)
                for t, x in zip(tgt.elts[i + 1:], vs[len(vs) - n_after:]):
                    self.assign(t, x, env)
                return
            if len(vs) != len(tgt.elts):
                raise RaiseEx(ValueError(f'cannot unpack {len(vs)} values into {len(tgt.elts)} targets'))
            for t, x in zip(tgt.elts, vs):
                self.assign(t, x, env)
        elif isinstance(tgt, ast.Subscript):
            self.setitem(self.eval(tgt.value, env), self.eval(tgt.slice, env), v)
        else:
            raise Unsupported(f'assignment target {type(tgt).__name__}')

    def setitem(self, o, k, v):
        if isinstance(o, Obj):
            c, mem = self.find_member(o.cls, '__setitem__')
            if mem is None:
                raise RaiseEx(TypeError(f'{o.cls.name} does not support item assignment'))
            return self.call(self.bind_member(o, c, mem, '__setitem__'), [k, v], {})
        if isinstance(o, Tensor):
            if isinstance(k, Tensor) and k.shape == ():
                k = k.item()
            try:
                o[k] = v
            except (IndexError, RuntimeError) as e:
                raise RaiseEx(e)
            return
        if isinstance(o, (list, dict)):
            if isinstance(k, Tensor):
                k = k.item()
            if is_sym(k):
                k = concretize_int(k)
            try:
                o[k] = v
            except HOST_EXC as e:
                raise RaiseEx(e)
            return
        try:
            o[k] = v
        except HOST_EXC as e:
            raise RaiseEx(e)

    def getitem(self, o, k):
        if self.tracing is not None and type(o).__name__ in ('Proxy', 'ProxyAttr'):
            return self.tracing.getitem(o, k)
        if isinstance(o, Obj):
            c, mem = self.find_member(o.cls, '__getitem__')
            if mem is None:
                raise RaiseEx(TypeError(f'{o.cls.name} object is not subscriptable'))
            return self.call(self.bind_member(o, c, mem, '__getitem__'), [k], {})
        if isinstance(o, Tensor):
            try:
                return o[k]
            except IndexError as e:
                raise RaiseEx(e)
        if isinstance(o, (list, tuple, str, range)):
            if isinstance(k, Tensor):
                k = k.item()
            if is_sym(k):
                k = concretize_int(k)
            if isinstance(k, slice):
                k = slice(*[None if x is None else concretize_int(x.item() if isinstance(x, Tensor) else x)
                            for x in (k.start, k.stop, k.step)])
            try:
                return o[k]
            except HOST_EXC as e:
                raise RaiseEx(e)
        if isinstance(o, dict):
            if isinstance(k, Tensor) and k.shape == ():
                k = k.item()
            if is_sym(k):
                k = concretize_int(k)
            try:
                return o[k]
            except KeyError as e:
                raise RaiseEx(e)
        from .modeb import SymDict
        if isinstance(o, SymDict):
            return o[k]
        if isinstance(o, (ClassInfo, StubClass, Missing, type)) or o is None:
            return o                 # typing generics such as Dict[str, Any] evaluated at run time
        if hasattr(o, '__getitem__'):
            try:
                return o[k]
            except HOST_EXC as e:
                raise RaiseEx(e)
        raise Unsupported(f'subscript of {type(o).__name__}')

    def iterate(self, v):
        """python iteration protocol over a model value -> host iterable"""
        if isinstance(v, Obj):
            c, mem = self.find_member(v.cls, '__iter__')
            if mem is not None:
                return self.iterate(self.call(self.bind_member(v, c, mem, '__iter__'), [], {}))
            c, mem = self.find_member(v.cls, '__getitem__')
            if mem is not None:
                n = self.builtin_len(v)
                return [self.getitem(v, i) for i in range(n)]
            raise RaiseEx(TypeError(f'{v.cls.name} object is not iterable'))
        if isinstance(v, Tensor):
            if not v.shape:
                raise RaiseEx(TypeError('iteration over a 0-d tensor'))
            return list(v)
        if is_sym(v) or isinstance(v, (int, float)) or v is None:
            raise RaiseEx(TypeError(f'{type(v).__name__} object is not iterable'))
        if isinstance(v, Missing):
            raise Unsupported(f'iteration over {v!r}')
        return v

    def stmt(self, s, env, mod=None):
        t = type(s)
        self._nstmt = getattr(self, '_nstmt', 0) + 1
        if self._nstmt % 128 == 0 and getattr(self, 'deadline', None) is not None and time.time() > self.deadline:
            raise BudgetExhausted()
        if t is ast.Expr:
            if isinstance(s.value, ast.Constant):
                return
            self.eval(s.value, env)
        elif t is ast.Assign:
            v = self.eval(s.value, env)
            for tg in s.targets:
                self.assign(tg, v, env)
        elif t is ast.AnnAssign:
            if s.value is not None:
                self.assign(s.target, self.eval(s.value, env), env)
        elif t is ast.AugAssign:
            cur = self.eval(_as_load(s.target), env)
            rhs = self.eval(s.value, env)
            if isinstance(cur, list) and isinstance(s.op, ast.Add):
                cur.extend(self.iterate(rhs))
                v = cur
            elif isinstance(cur, Tensor) and cur.is_param is False and isinstance(s.target, ast.Name) is False and False:
                v = cur
            else:
                v = self.binop(s.op, cur, rhs)
                if isinstance(cur, Tensor) and isinstance(v, Tensor) and v.shape == cur.shape:
                    # in-place tensor update: aliases observe it (torch semantics of +=, *= ...)
                    cur.els = list(v.els)
                    v = cur
            self.assign(s.target, v, env)
        elif t is ast.Return:
            raise ReturnEx(self.eval(s.value, env) if s.value is not None else None)
        elif t is ast.If:
            self.exec_if(s, env)
        elif t is ast.For:
            self.exec_for(s, env)
        elif t is ast.While:
            n = 0
            broke = False
            while truth(self.eval(s.test, env)):
                n += 1
                if n > self.MAX_LOOP:
                    raise Unsupported('while loop bound exceeded')
                try:
                    self.block(s.body, env)
                except ContinueEx:
                    continue
                except BreakEx:
                    broke = True
                    break
            if not broke and s.orelse:
                self.block(s.orelse, env)
        elif t is ast.With:
            ctxs = []
            for item in s.items:
                cm = self.eval(item.context_expr, env)
                val = cm
                if isinstance(cm, Obj):
                    val = self.call(self.getattr(cm, '__enter__'), [], {})
                elif hasattr(cm, '__enter__') and not isinstance(cm, Missing):
                    val = cm.__enter__()
                ctxs.append(cm)
                if item.optional_vars is not None:
                    self.assign(item.optional_vars, val, env)
            try:
                self.block(s.body, env)
            finally:
                for cm in reversed(ctxs):
                    if isinstance(cm, Obj):
                        self.call(self.getattr(cm, '__exit__'), [None, None, None], {})
                    elif hasattr(cm, '__exit__') and not isinstance(cm, Missing):
                        cm.__exit__(None, None, None)
        elif t is ast.Raise:
            if s.exc is None:
                raise RaiseEx(env.get('__active_exc__'))
            v = self.eval(s.exc, env)
            if isinstance(v, (ClassInfo,)) or (isinstance(v, type) and issubclass(v, BaseException)):
                v = self.call(v, [], {})
            raise RaiseEx(v)
        elif t is ast.Try:
            self.exec_try(s, env)
        elif t is ast.Pass:
            pass
        elif t is ast.Continue:
            raise ContinueEx()
        elif t is ast.Break:
            raise BreakEx()
        elif t is ast.Assert:
            if not truth(self.eval(s.test, env)):
                msg = self.eval(s.msg, env) if s.msg is not None else ''
                raise RaiseEx(AssertionError(msg if isinstance(msg, str) else ''))
        elif t is ast.FunctionDef:
            clo = Closure(s, env, env.get('__class__') if env.has('__class__') else None, self._mod_of(env))
            for d in reversed(s.decorator_list):
                dv = self.eval(d, env)
                if isinstance(dv, NoGrad) or dv is None:
                    continue
                clo = self.call(dv, [clo], {})
            env.set(s.name, clo)
        elif t is ast.ClassDef:
            self.exec_classdef(s, env, mod)
        elif t is ast.Delete:
            for tg in s.targets:
                if isinstance(tg, ast.Name):
                    e = env
                    while e is not None and tg.id not in e.vars:
                        e = e.parent
                    if e is None:
                        raise RaiseEx(NameError(tg.id))
                    del e.vars[tg.id]
                elif isinstance(tg, ast.Attribute):
                    self.delattr(self.eval(tg.value, env), tg.attr)
                elif isinstance(tg, ast.Subscript):
                    o = self.eval(tg.value, env)
                    k = self.eval(tg.slice, env)
                    try:
                        del o[k]
                    except HOST_EXC as e:
                        raise RaiseEx(e)
                else:
                    raise Unsupported('del target')
        elif t in (ast.Import, ast.ImportFrom):
            m = self._mod_of(env)
            if m is None:
                raise Unsupported('import outside a module')
            # local import: bind into the current scope
            tmp = Module(m.dotted, m.path)
            tmp.env = Env()
            self.exec_toplevel(s, tmp)
            for k, v in tmp.env.vars.items():
                env.set(k, v)
        elif t is ast.Global or t is ast.Nonlocal:
            raise Unsupported('global/nonlocal')
        else:
            raise Unsupported(f'statement {t.__name__}')

    def _mod_of(self, env):
        e = env
        while e.parent is not None:
            e = e.parent
        for m in self.modules.values():
            if m.env is e:
                return m
        return getattr(self, 'cur_mod', None)

    def exec_classdef(self, s, env, mod):
        mod = mod or self._mod_of(env)
        bases = [self.eval(b, env) for b in s.bases]
        ci = ClassInfo(s.name, mod, s, bases, self)
        env.set(s.name, ci)
        # class-level attributes (constants)
        cenv = Env(env)
        for st in s.body:
            if isinstance(st, (ast.Assign, ast.AnnAssign)):
                try:
                    self.stmt(st, cenv)
                except Unsupported as e:
                    mod.warnings.append(f'class attribute skipped in {s.name}: {e}')
            elif isinstance(st, ast.ClassDef):
                self.exec_classdef(st, cenv, mod)
        ci.cattrs.update(cenv.vars)
        if any(getattr(b, 'name', '') == 'Enum' or b is self.libs.get('enum_Enum') for b in bases):
            self.make_enum(ci)

    def make_enum(self, ci):
        members, last = {}, 0
        for k, v in list(ci.cattrs.items()):
            if k.startswith('_'):
                continue
            if v is None:                   # enum.auto(): 1, 2, ... in definition order
                v = last + 1
            if isinstance(v, int):
                last = v
            o = Obj(ci)
            o.attrs['name'] = k
            o.attrs['value'] = v
            ci.cattrs[k] = o
            members[k] = o
        ci.cattrs['__members__'] = members

    def exec_try(self, s, env):
        try:
            try:
                self.block(s.body, env)
            except RaiseEx as e:
                for h in s.handlers:
                    if h.type is None or self.exc_matches(e, self.eval(h.type, env)):
                        if h.name:
                            env.set(h.name, e.v)
                        env.set('__active_exc__', e.v)
                        self.block(h.body, env)
                        break
                else:
                    raise
            else:
                if s.orelse:
                    self.block(s.orelse, env)
        finally:
            if s.finalbody:
                self.block(s.finalbody, env)

    def exc_matches(self, e, typ):
        if isinstance(typ, tuple):
            return any(self.exc_matches(e, t) for t in typ)
        v = e.v
        if isinstance(typ, type):
            if isinstance(v, BaseException):
                return isinstance(v, typ)
            if isinstance(v, Obj):
                return any(isinstance(b, type) and issubclass(b, typ) for c in v.cls.mro() for b in c._bases)
            return False
        if isinstance(typ, ClassInfo):
            return isinstance(v, Obj) and typ in v.cls.mro()
        return False

    # --- if: path fork, or if-conversion when both arms only assign locals from pure expressions
    def exec_if(self, s, env):
        c = self.eval(s.test, env)
        if isinstance(c, Tensor) and c.numel() == 1:
            c = c.els[0]
        if is_sym(c):
            c = z3.simplify(as_bool(c))
            if z3.is_true(c):
                c = True
            elif z3.is_false(c):
                c = False
        if is_sym(c) and not PATH().concrete and _simple_arm(s.body) and _simple_arm(s.orelse):
            if self.if_convert(s, c, env):
                return
        self.block(s.body if truth(c) else s.orelse, env)

    def if_convert(self, s, c, env):
        names = sorted(_assigned_names(s.body) | _assigned_names(s.orelse))
        envs = []
        for arm in (s.body, s.orelse):
            e2 = Env(env)
            try:
                self.block(arm, e2)
            except (RaiseEx, Unsupported):
                return False
            envs.append(e2)
        merged = {}
        for n in names:
            vals = []
            for e2 in envs:
                if n in e2.vars:
                    vals.append(e2.vars[n])
                elif env.has(n):
                    vals.append(env.get(n))
                else:
                    return False
            m = merge_values(c, vals[0], vals[1])
            if m is NOMERGE:
                return False
            merged[n] = m
        for n, v in merged.items():
            env.set(n, v)
        return True

    def exec_for(self, s, env):
        it = self.eval(s.iter, env)
        from .modeb import SSeq, for_sseq
        if isinstance(it, SSeq):
            return for_sseq(self, s, env, it)
        broke = False
        n = 0
        for x in self.iterate(it):
            n += 1
            if n > self.MAX_LOOP:
                raise Unsupported('for loop bound exceeded')
            self.assign(s.target, x, env)
            try:
                self.block(s.body, env)
            except ContinueEx:
                continue
            except BreakEx:
                broke = True
                break
        if not broke and s.orelse:
            self.block(s.orelse, env)

    # ------------------------------------------------------------------ operators
    def binop(self, op, a, b):
        t = type(op)
        if self.tracing is not None and (self.tracing.has_proxy(a) or self.tracing.has_proxy(b)) and not isinstance(a, (list, tuple)):
            return self.tracing.binop(t.__name__, a, b)
        if isinstance(a, Obj) or isinstance(b, Obj):
            return self.obj_binop(op, a, b)
        if isinstance(a, Tensor) or isinstance(b, Tensor):
            try:
                return self.tensor_binop(t, a, b)
            except HOST_EXC as e:           # e.g. shapes that do not broadcast: an exception of the PROGRAM (torch raises RuntimeError), not of the engine
                raise RaiseEx(e)
        if isinstance(a, Missing) or isinstance(b, Missing):
            raise Unsupported('arithmetic on a value outside the model')
        if not (is_sym(a) or is_sym(b)):
            try:
                if t is ast.Add:
                    return a + b
                if t is ast.Sub:
                    return a - b
                if t is ast.Mult:
                    return a * b
                if t is ast.Div:
                    return a / b
                if t is ast.Mod:
                    return a % b
                if t is ast.Pow:
                    return a ** b
                if t is ast.FloorDiv:
                    return a // b
                if t is ast.BitOr:
                    return a | b
                if t is ast.BitAnd:
                    return a & b
                if t is ast.BitXor:
                    return a ^ b
                if t is ast.LShift:
                    return a << b
                if t is ast.RShift:
                    return a >> b
                if t is ast.MatMult:
                    return a @ b
            except HOST_EXC as e:
                raise RaiseEx(e)
            raise Unsupported(f'operator {t.__name__}')
        if t is ast.Add:
            return s_add(a, b)
        if t is ast.Sub:
            return s_sub(a, b)
        if t is ast.Mult:
            return s_mul(a, b)
        if t is ast.Div:
            self.check_div(b)
            return s_div(a, b)
        if t is ast.Mod:
            self.check_div(b)
            return s_mod(a, b)
        if t is ast.Pow:
            return s_pow(a, b)
        if t is ast.FloorDiv:
            self.check_div(b)
            return s_floordiv(a, b)
        if t is ast.BitAnd and _boolish(a) and _boolish(b):
            return s_and(a, b)
        if t is ast.BitOr and _boolish(a) and _boolish(b):
            return s_or(a, b)
        raise Unsupported(f'operator {t.__name__} on symbolic scalars')

    def check_div(self, b):
        """python scalar division raises ZeroDivisionError: fork the path on b == 0"""
        if is_sym(b):
            if truth(s_cmp('==', to_num(b), 0)):
                raise RaiseEx(ZeroDivisionError('division by zero'))
        elif b == 0:
            raise RaiseEx(ZeroDivisionError('division by zero'))

    def tensor_binop(self, t, a, b):
        if isinstance(a, Tensor):
            if isinstance(b, (list, tuple)):
                b = Tensor.from_nested(b)
            if t is ast.Add:
                return a.add(b)
            if t is ast.Sub:
                return a.sub(b)
            if t is ast.Mult:
                return a.mul(b)
            if t is ast.Div:
                return a.div(b)
            if t is ast.FloorDiv:
                return a.floordiv(b)
            if t is ast.Mod:
                return a.mod(b)
            if t is ast.Pow:
                return a.pow(b)
            if t is ast.MatMult:
                return a.matmul(b)
            if t is ast.BitAnd:
                return a.logical_and(b)
            if t is ast.BitOr:
                return a.logical_or(b)
        else:
            if isinstance(a, (list, tuple)):
                return self.tensor_binop(t, Tensor.from_nested(a), b)
            if t is ast.Add:
                return b.add(a)
            if t is ast.Sub:
                return b.rsub(a)
            if t is ast.Mult:
                return b.mul(a)
            if t is ast.Div:
                return b.rdiv(a)
            if t is ast.Pow:
                return b.rpow(a)
            if t is ast.FloorDiv:
                return Tensor.full(b.shape, a).floordiv(b)
            if t is ast.Mod:
                return Tensor.full(b.shape, a).mod(b)
        raise Unsupported(f'tensor operator {t.__name__}')

    def obj_binop(self, op, a, b):
        names = {ast.Add: ('__add__', '__radd__'), ast.Sub: ('__sub__', '__rsub__'), ast.Mult: ('__mul__', '__rmul__'),
                 ast.Div: ('__truediv__', '__rtruediv__')}.get(type(op))
        if names is None:
            raise Unsupported('operator on objects')
        if isinstance(a, Obj):
            c, mem = self.find_member(a.cls, names[0])
            if mem is not None:
                return self.call(self.bind_member(a, c, mem, names[0]), [b], {})
        if isinstance(b, Obj):
            c, mem = self.find_member(b.cls, names[1])
            if mem is not None:
                return self.call(self.bind_member(b, c, mem, names[1]), [a], {})
        raise RaiseEx(TypeError('unsupported operand types'))

    def compare(self, op, a, b):
        t = type(op)
        if t is ast.Is:
            return self.identical(a, b)
        if t is ast.IsNot:
            r = self.identical(a, b)
            return s_not(r)
        if t in (ast.In, ast.NotIn):
            r = self.contains(b, a)
            return r if t is ast.In else s_not(r)
        o = {ast.Eq: '==', ast.NotEq: '!=', ast.Gt: '>', ast.GtE: '>=', ast.Lt: '<', ast.LtE: '<='}[t]
        if (isinstance(a, Tensor) and (b is None or isinstance(b, (str, Obj)))) or (isinstance(b, Tensor) and (a is None or isinstance(a, (str, Obj)))):
            return o == '!='
        if isinstance(a, Tensor):
            return a.cmp(o, b)
        if isinstance(b, Tensor):
            return b.cmp({'<': '>', '<=': '>=', '>': '<', '>=': '<=', '==': '==', '!=': '!='}[o], a)
        from .modeb import SymRef
        if isinstance(a, SymRef) or isinstance(b, SymRef):
            return SymRef.compare(o, a, b)
        if isinstance(a, Obj) or isinstance(b, Obj):
            if o in ('==', '!='):
                if isinstance(a, Obj):
                    c, mem = self.find_member(a.cls, '__eq__')
                    if mem is not None and mem['kind'] == 'method':
                        r = self.call(self.bind_member(a, c, mem, '__eq__'), [b], {})
                        return r if o == '==' else s_not(r)
                r = a is b
                return r if o == '==' else not r
            raise Unsupported('ordering comparison on objects')
        if is_sym(a) or is_sym(b):
            if a is None or b is None or isinstance(a, str) or isinstance(b, str):
                if o == '==':
                    return False
                if o == '!=':
                    return True
            if isinstance(a, (tuple, list)) or isinstance(b, (tuple, list)):
                if o in ('==', '!='):
                    return False if o == '==' else True
            return s_cmp(o, a, b)
        if isinstance(a, (tuple, list)) and isinstance(b, (tuple, list)) and type(a) == type(b) and o in ('==', '!='):
            if len(a) != len(b):
                return o == '!='
            r = s_and(*[self.compare(ast.Eq(), x, y) for x, y in zip(a, b)])
            return r if o == '==' else s_not(r)
        try:
            return {'<': lambda: a < b, '<=': lambda: a <= b, '>': lambda: a > b, '>=': lambda: a >= b,
                    '==': lambda: a == b, '!=': lambda: a != b}[o]()
        except HOST_EXC as e:
            raise RaiseEx(e)

    def identical(self, a, b):
        from .modeb import SymRef
        if isinstance(a, SymRef) or isinstance(b, SymRef):
            return SymRef.compare('==', a, b)
        if a is None or b is None:
            return a is b
        if isinstance(a, (bool, int, str)) and isinstance(b, (bool, int, str)):
            return type(a) == type(b) and a == b
        return a is b

    def contains(self, cont, x):
        if isinstance(cont, Obj):
            c, mem = self.find_member(cont.cls, '__contains__')
            if mem is not None:
                return self.call(self.bind_member(cont, c, mem, '__contains__'), [x], {})
            return any(truth(self.compare(ast.Eq(), y, x)) for y in self.iterate(cont))
        from .modeb import SymDict
        if isinstance(cont, SymDict):
            return cont.contains(x)
        if isinstance(x, Tensor) and x.shape == ():
            x = x.item()
        if isinstance(cont, (dict, set, frozenset)) or (isinstance(cont, (list, tuple, str)) and not is_sym(x)):
            if is_sym(x):
                x = concretize_int(x)
            if isinstance(cont, (list, tuple)):
                for y in cont:
                    if y is x:
                        return True
                    r = self.compare(ast.Eq(), y, x)
                    if isinstance(r, Tensor):
                        r = r.all().item() if r.numel() else False
                    if truth(r):
                        return True
                return False
            try:
                return x in cont
            except TypeError as e:
                raise RaiseEx(e)
        if isinstance(cont, (list, tuple)):
            return s_or(*[self.compare(ast.Eq(), y, x) for y in cont])
        if isinstance(cont, Tensor):
            return cont.eq(x).any().item()
        try:
            return x in cont
        except HOST_EXC as e:
            raise RaiseEx(e)

    # ------------------------------------------------------------------ expressions
    def eval(self, e, env):
        t = type(e)
        if t is ast.Constant:
            return e.value
        if t is ast.Name:
            try:
                return env.get(e.id)
            except NameError:
                b = self.builtins.get(e.id, _NOTFOUND)
                if b is _NOTFOUND:
                    raise RaiseEx(NameError(f"name '{e.id}' is not defined"))
                return b
        if t is ast.Attribute:
            return self.getattr(self.eval(e.value, env), e.attr)
        if t is ast.Call:
            f = self.eval(e.func, env)
            args = []
            for a in e.args:
                if isinstance(a, ast.Starred):
                    args.extend(self.iterate(self.eval(a.value, env)))
                else:
                    args.append(self.eval(a, env))
            kwargs = {}
            for k in e.keywords:
                if k.arg is None:
                    kwargs.update(self.eval(k.value, env))
                else:
                    kwargs[k.arg] = self.eval(k.value, env)
            if f is super and not args:
                args = [env.get('__class__'), env.get(self._first_param(env))]
            return self.call(f, args, kwargs)
        if t is ast.BinOp:
            return self.binop(e.op, self.eval(e.left, env), self.eval(e.right, env))
        if t is ast.UnaryOp:
            v = self.eval(e.operand, env)
            if isinstance(e.op, ast.Not):
                if isinstance(v, Tensor) and v.numel() == 1:
                    v = v.els[0]
                if is_sym(v):
                    return s_not(v)
                return not truth(v) if isinstance(v, Tensor) else (not self.py_truth(v))
            if isinstance(e.op, ast.USub):
                if isinstance(v, Tensor):
                    return v.neg()
                return s_neg(v)
            if isinstance(e.op, ast.UAdd):
                return v
            if isinstance(e.op, ast.Invert):
                if isinstance(v, Tensor):
                    return v.logical_not()
                if is_sym(v) and z3.is_bool(v):
                    return s_not(v)
                return ~v
        if t is ast.BoolOp:
            return self.eval_boolop(e, env)
        if t is ast.Compare:
            left = self.eval(e.left, env)
            if len(e.ops) == 1:
                return self.compare(e.ops[0], left, self.eval(e.comparators[0], env))
            res = True
            for op, r in zip(e.ops, e.comparators):
                right = self.eval(r, env)
                res = s_and(res, self.as_scalar_bool(self.compare(op, left, right)))
                left = right
            return res
        if t is ast.IfExp:
            c = self.eval(e.test, env)
            if isinstance(c, Tensor) and c.numel() == 1:
                c = c.els[0]
            if is_sym(c) and not PATH().concrete and _pure_expr(e.body) and _pure_expr(e.orelse):
                try:
                    a = self.eval(e.body, env)
                    b = self.eval(e.orelse, env)
                    m = merge_values(as_bool(c), a, b)
                    if m is not NOMERGE:
                        return m
                except (RaiseEx, Unsupported):
                    pass
            return self.eval(e.body if self.py_truth(c) else e.orelse, env)
        if t is ast.Tuple:
            out = []
            for x in e.elts:
                if isinstance(x, ast.Starred):
                    out.extend(self.iterate(self.eval(x.value, env)))
                else:
                    out.append(self.eval(x, env))
            return tuple(out)
        if t is ast.List:
            out = []
            for x in e.elts:
                if isinstance(x, ast.Starred):
                    out.extend(self.iterate(self.eval(x.value, env)))
                else:
                    out.append(self.eval(x, env))
            return out
        if t is ast.Set:
            return {self.eval(x, env) for x in e.elts}
        if t is ast.Dict:
            d = {}
            for k, v in zip(e.keys, e.values):
                if k is None:
                    d.update(self.eval(v, env))
                else:
                    d[self.eval(k, env)] = self.eval(v, env)
            return d
        if t is ast.Subscript:
            return self.getitem(self.eval(e.value, env), self.eval(e.slice, env))
        if t is ast.Slice:
            return slice(*(self.eval(x, env) if x is not None else None for x in (e.lower, e.upper, e.step)))
        if t is ast.ListComp:
            return self.comp(e.generators, env, lambda en: self.eval(e.elt, en))
        if t is ast.GeneratorExp:
            return iter(self.comp(e.generators, env, lambda en: self.eval(e.elt, en)))
        if t is ast.SetComp:
            return set(self.comp(e.generators, env, lambda en: self.eval(e.elt, en)))
        if t is ast.DictComp:
            return dict(self.comp(e.generators, env, lambda en: (self.eval(e.key, en), self.eval(e.value, en))))
        if t is ast.JoinedStr:
            parts = []
            for v in e.values:
                if isinstance(v, ast.Constant):
                    parts.append(str(v.value))
                else:
                    x = self.eval(v.value, env)
                    spec = self.eval(v.format_spec, env) if v.format_spec is not None else ''
                    parts.append(self.format_value(x, v.conversion, spec))
            return ''.join(parts)
        if t is ast.Lambda:
            fn = ast.FunctionDef(name='<lambda>', args=e.args, body=[ast.Return(e.body)], decorator_list=[], lineno=e.lineno,
                                 col_offset=e.col_offset)
            fn._pyvc_gen = False
            return Closure(fn, env, env.get('__class__') if env.has('__class__') else None, None)
        if t is ast.Yield:
            env.get('__yield__').append(self.eval(e.value, env) if e.value is not None else None)
            return None
        if t is ast.YieldFrom:
            env.get('__yield__').extend(self.iterate(self.eval(e.value, env)))
            return None
        if t is ast.Starred:
            raise Unsupported('starred expression')
        if t is ast.NamedExpr:
            v = self.eval(e.value, env)
            env.set(e.target.id, v)
            return v
        raise Unsupported(f'expression {t.__name__}')

    def _first_param(self, env):
        for k in env.vars:
            return k
        return 'self'

    def format_value(self, x, conversion, spec):
        if isinstance(x, Tensor) and x.numel() == 1:
            x = x.els[0]
        if is_sym(x):
            if z3.is_int(x) and not PATH_concrete() and PATH().few_values(z3.simplify(x)):
                x = concretize_int(x)          # a symbolic integer turned into text (a name, a key): one path per feasible value
            else:
                return '<sym>'
        if isinstance(x, (Obj, ClassInfo, StubClass, Closure, Tensor)):
            return repr(x)
        try:
            if conversion == 114:
                x = repr(x)
            elif conversion == 115:
                x = str(x)
            return format(x, spec)
        except Exception:
            return str(x)

    def as_scalar_bool(self, v):
        if isinstance(v, Tensor):
            if v.numel() != 1:
                raise Unsupported('truth value of a multi-element tensor')
            v = v.els[0]
        return v

    def py_truth(self, v):
        """python truthiness of an arbitrary model value"""
        if isinstance(v, Obj):
            c, mem = self.find_member(v.cls, '__bool__')
            if mem is not None:
                return truth(self.call(self.bind_member(v, c, mem, '__bool__'), [], {}))
            c, mem = self.find_member(v.cls, '__len__')
            if mem is not None:
                return truth(s_cmp('!=', self.call(self.bind_member(v, c, mem, '__len__'), [], {}), 0))
            return True
        if isinstance(v, (Tensor,)) or is_sym(v):
            return truth(v)
        from .modeb import SymRef
        if isinstance(v, SymRef):
            return truth(v.truth())
        return bool(v)

    def eval_boolop(self, e, env):
        is_and = isinstance(e.op, ast.And)
        # no fork when every operand is a pure boolean-valued expression and evaluates without error
        if all(_pure_expr(x) for x in e.values) and not PATH_concrete():
            try:
                vals = [self.eval(x, env) for x in e.values]
                vals = [v.els[0] if isinstance(v, Tensor) and v.numel() == 1 else v for v in vals]
                if all(isinstance(v, bool) or (is_sym(v) and z3.is_bool(v)) for v in vals) and any(is_sym(v) for v in vals):
                    return s_and(*vals) if is_and else s_or(*vals)
            except (RaiseEx, Unsupported, StopPath, Infeasible):
                pass
        v = None
        for x in e.values:
            v = self.eval(x, env)
            tv = self.py_truth(v)
            if is_and and not tv:
                return v
            if not is_and and tv:
                return v
        return v

    def comp(self, gens, env, body):
        out = []

        def rec(i, env):
            if i == len(gens):
                out.append(body(env))
                return
            g = gens[i]
            for x in self.iterate(self.eval(g.iter, env)):
                e2 = Env(env)
                self.assign(g.target, x, e2)
                ok = True
                for c in g.ifs:
                    if not self.py_truth(self.eval(c, e2)):
                        ok = False
                        break
                if ok:
                    rec(i + 1, e2)
        rec(0, env)
        return out

    def builtin_len(self, v):
        if isinstance(v, Obj):
            c, mem = self.find_member(v.cls, '__len__')
            if mem is None:
                if self._is_standin(v):
                    raise Unsupported(f'stand-in class {v.cls.name} of the contract does not model len()')
                raise RaiseEx(TypeError(f'object of type {v.cls.name} has no len()'))
            return self.call(self.bind_member(v, c, mem, '__len__'), [], {})
        from .modeb import SSeq
        if isinstance(v, SSeq):
            return v.n
        try:
            return len(v)
        except TypeError as e:
            raise RaiseEx(e)


class InterpBuiltin:
    """builtin implemented with access to the interpreter"""
    def __init__(self, f):
        self.f = f


class PyClassMethod:
    def __init__(self, cls, f, name=''):
        self.cls, self.f, self.name = cls, f, name


class ModuleRef:
    def __init__(self, interp, dotted):
        self.interp, self.dotted = interp, dotted

    def get(self, name):
        m = self.interp.load(self.dotted)
        try:
            return m.env.get(name)
        except NameError:
            if self.interp.find_module(self.dotted + '.' + name):
                return ModuleRef(self.interp, self.dotted + '.' + name)
            raise RaiseEx(AttributeError(f'module {self.dotted} has no attribute {name}'))


_NOTFOUND = object()
NOMERGE = object()


def PATH_concrete():
    p = PATH()
    return p is None or p.concrete


def _boolish(v):
    return isinstance(v, bool) or (is_sym(v) and z3.is_bool(v))


def _as_load(t):
    t2 = _copy.copy(t)
    t2.ctx = ast.Load()
    return t2


_PURE_CALLS = {'abs', 'min', 'max', 'float', 'int', 'len', 'bool', 'isinstance', 'round', 'sum', 'tuple', 'cast'}


def _pure_expr(e):
    for n in ast.walk(e):
        if isinstance(n, ast.Call):
            f = n.func
            if isinstance(f, ast.Name) and f.id in _PURE_CALLS:
                continue
            if isinstance(f, ast.Attribute) and isinstance(f.value, ast.Name) and f.value.id in ('torch', 'math', 'F') \
                    and not f.attr.endswith('_'):
                continue
            if isinstance(f, ast.Attribute) and f.attr in ('item', 'sum', 'abs', 'float', 'detach', 'size', 'dim', 'numel'):
                continue
            return False
        if isinstance(n, (ast.Yield, ast.YieldFrom, ast.Await, ast.NamedExpr, ast.Lambda, ast.ListComp, ast.GeneratorExp,
                          ast.DictComp, ast.SetComp)):
            return False
    return True


def _simple_arm(stmts):
    for s in stmts:
        if isinstance(s, ast.Pass):
            continue
        if isinstance(s, ast.Assign):
            if not all(isinstance(t, ast.Name) for t in s.targets) or not _pure_expr(s.value):
                return False
        elif isinstance(s, ast.AugAssign):
            if not isinstance(s.target, ast.Name) or not _pure_expr(s.value):
                return False
        elif isinstance(s, ast.AnnAssign):
            if not isinstance(s.target, ast.Name) or (s.value is not None and not _pure_expr(s.value)):
                return False
        elif isinstance(s, ast.If):
            if not _pure_expr(s.test) or not _simple_arm(s.body) or not _simple_arm(s.orelse):
                return False
        else:
            return False
    return True


def _assigned_names(stmts):
    out = set()
    for s in stmts:
        for n in ast.walk(s):
            if isinstance(n, ast.Name) and isinstance(n.ctx, ast.Store):
                out.add(n.id)
    return out


def merge_values(c, a, b):
    """ite-merge of two values of the same shape; NOMERGE when they cannot be merged symbolically"""
    if a is b:
        return a
    if isinstance(a, Tensor) and isinstance(b, Tensor):
        if a.shape != b.shape:
            return NOMERGE
        return Tensor(a.shape, [s_ite(c, x, y) for x, y in zip(a.els, b.els)])
    if isinstance(a, Tensor) or isinstance(b, Tensor):
        t, o = (a, b) if isinstance(a, Tensor) else (b, a)
        if t.shape == () and (is_sym(o) or isinstance(o, (int, float))):
            return Tensor((), [s_ite(c, a.els[0] if isinstance(a, Tensor) else a, b.els[0] if isinstance(b, Tensor) else b)])
        return NOMERGE
    if (is_sym(a) or isinstance(a, (int, float, bool))) and (is_sym(b) or isinstance(b, (int, float, bool))):
        if not is_sym(a) and not is_sym(b) and type(a) == type(b) and a == b:
            return a
        if sym._is_inf(a) or sym._is_inf(b):
            return NOMERGE                     # infinity has no term: fork instead of merging
        return s_ite(c, a, b)
    if isinstance(a, tuple) and isinstance(b, tuple) and len(a) == len(b):
        out = []
        for x, y in zip(a, b):
            m = merge_values(c, x, y)
            if m is NOMERGE:
                return NOMERGE
            out.append(m)
        return tuple(out)
    from .modeb import SymRef
    if isinstance(a, SymRef) or isinstance(b, SymRef):
        return SymRef.merge(c, a, b)
    if a is None and b is None:
        return None
    if isinstance(a, str) and isinstance(b, str) and a == b:
        return a
    return NOMERGE
