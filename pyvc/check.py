"""Driver: python3-vt -m pyvc.check <property id> [--tier quick|thorough] [--replay file]

Exit codes: 0 every obligation of the property discharged (or refuted ones all listed in known_findings.json, each announced
by a KNOWN-FINDING line); 1 a refuted obligation that is not listed (VIOLATION property=<id> replay=<path>); 2 undecided
(unknown / time-out / unsupported construct / counter-model not confirmed by the real code); 3 engine failure (traceback,
cross-check disagreement between the interpreter and CPython, zero obligations, failed canary).
"""
import argparse
import hashlib
import fractions
import json
import multiprocessing as mp
import os
import random
import re
import subprocess
import sys
import tempfile
import time

VERIF = os.path.dirname(os.path.dirname(os.path.abspath(__file__)))
sys.path.insert(0, VERIF)
EVDIR = os.environ.get('PYVC_EVIDENCE_DIR', os.path.join(VERIF, 'evidence'))
from pyvc import run as R            # noqa: E402

NATIVE_PY = os.environ.get('PYVC_NATIVE_PY', '/venv/bin/python')

# property -> contract modules that carry its harnesses
MODULES = {
    'C17': ['contracts.c17'],
    'C15': ['contracts.c15'],
    'C03': ['contracts.c03', 'contracts.whole_supernet'],
    'C19': ['contracts.c19'],
    'C16': ['contracts.c16', 'contracts.c15'],
    'C13': ['contracts.c13'],
    'C10': ['contracts.c10'],
    'C11': ['contracts.c11', 'contracts.pit_graph', 'contracts.whole_pit', 'contracts.whole_mps'],
    'C08': ['contracts.pit_layers', 'contracts.pit_graph', 'contracts.whole_pit'],
    'C01': ['contracts.pit_layers', 'contracts.pit_graph', 'contracts.whole_pit'],
    'C04': ['contracts.pit_layers', 'contracts.wrappers', 'contracts.c15', 'contracts.pit_graph', 'contracts.whole_pit'],
    'C12': ['contracts.pit_layers', 'contracts.wrappers', 'contracts.c16', 'contracts.c13', 'contracts.c10', 'contracts.odimo'],
    'C05': ['contracts.mps_layers', 'contracts.wrappers', 'contracts.pit_graph', 'contracts.whole_mps'],
    'C02': ['contracts.mps_layers', 'contracts.whole_mps'],
    'C06': ['contracts.wrappers', 'contracts.pit_graph', 'contracts.whole_supernet'],
    'C18': ['contracts.wrappers', 'contracts.pit_layers', 'contracts.mps_layers', 'contracts.whole_pit', 'contracts.whole_supernet', 'contracts.whole_mps'],
    'C09': ['contracts.c09', 'contracts.pit_layers', 'contracts.pit_graph', 'contracts.whole_pit', 'contracts.whole_mps'],
    'C14': ['contracts.c14', 'contracts.c14_sym'],
    'C20': ['contracts.c20'],
    'C07': ['contracts.c07', 'contracts.wrappers', 'contracts.whole_pit', 'contracts.whole_supernet', 'contracts.whole_mps'],
}

EXTRACTION_DROPS = ['docstrings', 'type annotations', 'typing.cast (identity)', 'with torch.no_grad() (body kept)',
                    'print/warn calls', 'device/dtype keyword arguments',
                    '.to()/.cpu()/.detach()/.float()/.contiguous() (identity on the value model; .clone()/deepcopy allocate)']
TRUSTED_BASE = [
    'A-real: python floats / float32 tensor elements are mathematical reals, python ints and integer tensors are mathematical integers (machine arithmetic treated as mathematical) - except tensors '
    'explicitly converted to torch.int32 / int16 / int8, whose sums, differences and products wrap in two\'s complement; constants of a harness (weight tables, scales) are float64 values taken as exact rationals',
    'library contracts in pyvc/tensor.py, pyvc/torchlib.py and pyvc/fxtrace.py (torch operators, nn.Module bookkeeping, torch.fx tracing / GraphModule / ShapeProp / graph '
    'mutators, networkx digraph operations, builtins, math, itertools) - executable specifications, compared with the real libraries by the CPython cross-check of every harness',
    'z3 4.x (python API 5.1.0) and /usr/bin/cvc5 1.0.3; python ast parser; the pyvc interpreter itself',
]


def _worker(job):
    return R.run_job(job)


def _witness_search(o, group, results, seed, limit=24):
    """candidate inputs for a refuted obligation whose solver model does not reproduce natively; returns (inputs, native result) of the
    first candidate on which the real code violates the same clause, else None"""
    import random
    rnd = random.Random(seed * 31 + 7)
    cands = [g['model'] for g in group[1:7] if g.get('model')]
    for res in results:
        j = res['job']
        if j['module'] == o['module'] and j['fn'] == o['fn'] and j['config'] == o['config']:
            cands.extend(res.get('cc_inputs') or [])
    base = dict(o['model'] or {})
    for _ in range(10):
        m = dict(base)
        for k_ in m:
            v = m[k_]
            if isinstance(v, bool) or not isinstance(v, (str, int, float)):
                continue
            if rnd.random() < 0.6:
                m[k_] = str(fractions.Fraction(rnd.randint(-24, 24), 8)) if rnd.random() < 0.8 else str(rnd.choice((-1, 1)) * rnd.randint(2, 40))
        cands.append(m)
    cands = cands[:limit]
    if not cands:
        return None
    tasks = [dict(module=o['module'], fn=o['fn'], config=o['config'], inputs=c) for c in cands]
    try:
        got = native_batch(tasks)
    except Exception:
        return None
    for c, nr in zip(cands, got):
        if nr is None or nr.get('status') == 'assume-failed':
            continue
        if o['name'] in [n for n, ok in nr.get('ensures', []) if not ok]:
            return c, nr
    return None


def _concrete_worker(args):
    job, inputs = args
    try:
        return R.run_concrete(job, inputs)
    except Exception as e:          # engine failure in concrete mode
        return dict(status=f'engine-error: {type(e).__name__}: {e}', ensures=[], observations={}, exception=None)


def native_batch(tasks, timeout=900, dtype='float64'):
    if not tasks:
        return []
    with tempfile.TemporaryDirectory() as d:
        fi, fo = os.path.join(d, 'tasks.json'), os.path.join(d, 'out.json')
        json.dump(tasks, open(fi, 'w'))
        env = dict(os.environ, PYTHONPATH=VERIF, OMP_NUM_THREADS='1', MKL_NUM_THREADS='1', PYVC_NATIVE_DTYPE=dtype)
        r = subprocess.run([NATIVE_PY, '-m', 'pyvc.native', fi, fo], capture_output=True, text=True, env=env, timeout=timeout,
                           cwd=VERIF)
        if r.returncode != 0 or not os.path.exists(fo):
            raise RuntimeError('native runner failed: ' + (r.stderr or r.stdout)[-2000:])
        return json.load(open(fo))


def load_known(pid):
    p = os.path.join(VERIF, 'known_findings.json')
    if not os.path.exists(p):
        return []
    return [k for k in json.load(open(p)).get('findings', []) if k.get('property') == pid and k.get('status', 'open') == 'open']


def known_match(known, harness, obname, config):
    for k in known:
        if k.get('harness') not in (None, harness):
            continue
        if k['obligation'] != obname:
            continue
        cm = k.get('config')
        if cm is not None and any(config.get(a) != b for a, b in cm.items()):
            continue
        return k
    return None


def close(a, b, tol=1e-6):
    if isinstance(a, dict) and isinstance(b, dict):
        return set(a) == set(b) and all(close(a[k], b[k], tol) for k in a)
    if isinstance(a, (list, tuple)) and isinstance(b, (list, tuple)):
        return len(a) == len(b) and all(close(x, y, tol) for x, y in zip(a, b))
    if isinstance(a, bool) or isinstance(b, bool):
        return bool(a) == bool(b)
    if isinstance(a, (int, float)) and isinstance(b, (int, float)):
        return abs(a - b) <= tol * (1 + max(abs(a), abs(b)))
    return a == b


def main(argv=None):
    ap = argparse.ArgumentParser()
    ap.add_argument('property')
    ap.add_argument('--tier', default=os.environ.get('VERIF_TIER', 'quick'))
    ap.add_argument('--replay', default=None)
    ap.add_argument('--jobs', type=int, default=int(os.environ.get('PYVC_JOBS', '16')))
    ap.add_argument('--only', default=None, help='run only harnesses whose name contains this')
    ap.add_argument('--no-native', action='store_true')
    args = ap.parse_args(argv)
    pid = args.property
    tier = 'thorough' if args.tier == 'thorough' else 'quick'
    seed = int(os.environ.get('VERIF_SEED', '0') or 0)
    if args.replay:
        return do_replay(args.replay)
    t0 = time.time()
    mods = MODULES.get(pid)
    if not mods:
        print(f'property {pid} has no check (see MANIFEST.json not_applicable)')
        return 3
    harnesses = []
    pmeta = {}
    for m in mods:
        for h in R.list_harnesses(m):
            props = h['property'] if isinstance(h['property'], (list, tuple)) else [h['property']]
            if pid in props and (args.only is None or args.only in h['name']):
                harnesses.append((m, h))
        try:
            it = R.new_interp()
            pm = it.load(m).env.get('PROPERTY')
            if pid in pm:
                pmeta = pm[pid]
        except Exception:
            pass
    jobs = []
    for m, h in harnesses:
        cfgs = h.get(tier) or h.get('quick') or [{}]
        for cfg in cfgs:
            jobs.append(dict(module=m, fn=h['fn'], config=cfg, name=h['name'], native=h.get('native', True), timeout=h.get('timeout', 60 if tier == 'quick' else 120),
                             budget=h.get('budget', 240 if tier == 'quick' else 1200), max_paths=h.get('max_paths', 20000), crosscheck=h.get('crosscheck', 2 if tier == 'quick' else 8),
                             seed=seed, helper=h.get('helper', False)))
    known = load_known(pid)
    ctx = mp.get_context('fork')
    # jobs run in parallel; once a refuted obligation that is not a known finding has been seen, the remaining jobs get a grace period
    # and are then abandoned (a change that breaks the property can make other obligations very hard to decide; the violation is
    # already established and will be replayed).  On a tree where nothing new is refuted every job runs to completion.
    grace = 45 if tier == 'quick' else 180
    results_by_idx = {}
    deadline = None
    pool = ctx.Pool(min(args.jobs, max(1, len(jobs))))
    try:
        pending = [pool.apply_async(_worker, (j,)) for j in jobs]
        done = set()
        while len(done) < len(jobs):
            progressed = False
            for i, a in enumerate(pending):
                if i in done or not a.ready():
                    continue
                res = a.get()
                results_by_idx[i] = res
                done.add(i)
                progressed = True
                if deadline is None and not res['error']:
                    for o in res['obligations']:
                        mt = re.match(r'\[([C0-9, ]+)\] ', o['name'])
                        if mt and pid not in [x.strip() for x in mt.group(1).split(',')]:
                            continue
                        if o['status'] == 'refuted' and o['kind'] != 'safety' and known_match(known, jobs[i]['name'], o['name'], jobs[i]['config']) is None:
                            deadline = time.time() + grace
                            break
            if deadline is not None and time.time() > deadline:
                break
            if not progressed:
                time.sleep(0.05)
    finally:
        pool.terminate()
        pool.join()
    abandoned = [i for i in range(len(jobs)) if i not in results_by_idx]
    results = [results_by_idx[i] for i in range(len(jobs)) if i in results_by_idx]
    jobs_all = jobs
    jobs = [jobs[i] for i in range(len(jobs_all)) if i in results_by_idx]
    engine_errors, undecided, refuted, discharged = [], [], [], 0
    all_obls = []
    touched = {}
    solver_time = 0.0
    backends = {}
    for res in results:
        job = res['job']
        tag = f"{job['name']}{json.dumps(job['config'], sort_keys=True, separators=(',', ':'))}"
        if res['error']:
            engine_errors.append(f'{tag}: {res["error"][:600]}')
            continue
        st = res['stats']
        for u in st.get('unsupported', []):
            undecided.append(f'{tag}: unsupported: {u}')
        if res['canary'] != 'sat' and (st.get('paths', 0) + st.get('cut', 0)) > 0:
            engine_errors.append(f'{tag}: canary failed (final path condition {res["canary"]}): vacuous harness')
        if not res['obligations'] and not st.get('unsupported'):
            engine_errors.append(f'{tag}: zero obligations generated')
        touched.update(res['touched'])
        for o in res['obligations']:
            # a clause that belongs to some of the properties a harness serves only is named "[C02,C05] clause-name"
            mt = re.match(r'\[([C0-9, ]+)\] ', o['name'])
            if mt and pid not in [x.strip() for x in mt.group(1).split(',')]:
                continue
            o['harness'], o['config'], o['module'], o['fn'] = job['name'], job['config'], job['module'], job['fn']
            o['native'] = job.get('native', True)
            all_obls.append(o)
            solver_time += o['time']
            backends[o['backend']] = backends.get(o['backend'], 0) + 1
            if o['status'] == 'discharged':
                discharged += 1
            elif o['status'] == 'refuted':
                refuted.append(o)
            else:
                undecided.append(f"{tag}: {o['name']}: solver answered unknown ({o['note']})")

    # ------------------------------------------------------------------ replay of counter-models on the real code
    os.makedirs(os.path.join(EVDIR, 'replays'), exist_ok=True)
    violations, known_hits, spurious, benign, benign_n = [], [], [], [], []
    groups = {}
    for o in refuted:
        key = (o['harness'], o['name'], json.dumps(o['config'], sort_keys=True))
        groups.setdefault(key, []).append(o)
    reps = [g[0] for g in groups.values()]
    tasks = [dict(module=o['module'], fn=o['fn'], config=o['config'], inputs=o['model'] or {}) for o in reps]
    native_res = []
    if reps and not args.no_native:
        try:
            idx = [i for i, o in enumerate(reps) if o.get('native', True)]      # mode-B harnesses (quantifiers, ghost state) have no native side
            got = native_batch([tasks[i] for i in idx])
            native_res = [None] * len(reps)
            for i, r in zip(idx, got):
                native_res[i] = r
        except Exception as e:
            engine_errors.append(f'native replay failed: {e}')
            native_res = [None] * len(reps)
    else:
        native_res = [None] * len(reps)
    def _verdict(o, nr):
        if nr is None:
            return 'no-replay'
        failing = [n for n, ok in nr['ensures'] if not ok]
        if o['name'] in failing:
            return 'reproduced'
        if o['name'].startswith('harness:no-unexpected-exception') and nr.get('exception'):
            return 'reproduced'
        if o['kind'] == 'safety' and (nr.get('exception') or failing):
            return 'reproduced'
        if nr['status'] == 'assume-failed':
            return 'model-violates-precondition-natively'
        if nr.get('exception'):
            return 'native-exception:' + str(nr.get('exception'))
        return 'not-reproduced'
    # the replay runs in float64 first (closest to the reals of the proof); what does not reproduce there is replayed in the
    # library's default float32 arithmetic (defects that only exist at single precision, e.g. comparisons with finfo.eps)
    retry = [i for i, (o, nr) in enumerate(zip(reps, native_res)) if nr is not None and _verdict(o, nr) != 'reproduced']
    if retry and not args.no_native:
        try:
            res32 = native_batch([tasks[i] for i in retry], dtype='float32')
            for i, nr in zip(retry, res32):
                if _verdict(reps[i], nr) == 'reproduced':
                    nr['arithmetic'] = 'float32'
                    native_res[i] = nr
        except Exception as e:
            engine_errors.append(f'native float32 replay failed: {e}')
    for o, nr in zip(reps, native_res):
        k = known_match(known, o['harness'], o['name'], o['config'])
        h = hashlib.sha1((pid + o['harness'] + o['name'] + json.dumps(o['config'], sort_keys=True)).encode()).hexdigest()[:10]
        path = os.path.join(EVDIR, 'replays', f'{pid}_{h}.json')
        verdict = _verdict(o, nr)
        rec = dict(property=pid, obligation=o['name'], kind=o['kind'], harness=o['harness'], module=o['module'], fn=o['fn'],
                   config=o['config'], solver=o['backend'], solver_output='sat (negated obligation satisfiable under the path condition)',
                   model=o['model'], native=nr, verdict=verdict, same_obligation_refuted_in_paths=len(groups[(o['harness'], o['name'], json.dumps(o['config'], sort_keys=True))]),
                   replay_cmd=f'python3-vt -m pyvc.check {pid} --replay {path}')
        if k is not None:
            known_hits.append((k, o, verdict))
            continue
        json.dump(rec, open(path, 'w'), indent=1, default=str)
        if verdict == 'reproduced':
            violations.append((o, path, ''))
        elif o['kind'] == 'safety' and verdict in ('not-reproduced', 'model-violates-precondition-natively'):
            # an intermediate value is undefined (0/0 ...) on the counter-model, but on the real code no clause of the property fails
            # and nothing is raised: the undefined value does not reach anything the property observes (e.g. a discarded ratio)
            benign_n.append(len(groups[(o['harness'], o['name'], json.dumps(o['config'], sort_keys=True))]))
            benign.append(f"{o['harness']}{json.dumps(o['config'], sort_keys=True)}: {o['name']}: undefined intermediate value does not reach the result (native run: all clauses hold); see {path}")
        elif verdict == 'no-replay':
            violations.append((o, path, ' no-failing-input-found'))
        elif verdict.startswith('native-exception'):
            # the real code raises where the clause was expected to be evaluated: the obligation is violated by an exception
            violations.append((o, path, ''))
        else:
            # The real code satisfies the clause on the (floating-point image of the) counter-model.  Run the interpreter concretely
            # on the same input: if it disagrees with CPython the engine misrepresents the code (exit 3, no alarm); if it agrees,
            # the counter-example only exists in exact real arithmetic -> the refuted obligation is reported without a failing input.
            c = _concrete_worker((dict(module=o['module'], fn=o['fn'], config=o['config']), o['model'] or {}))
            cfail = [n for n, ok in c.get('ensures', []) if not ok]
            rec['interpreter_concrete'] = dict(status=c.get('status'), failing=cfail[:10], exception=c.get('exception'))
            json.dump(rec, open(path, 'w'), indent=1, default=str)
            if c.get('status', '').startswith(('engine-error', 'unsupported')) or (o['name'] in cfail) or (c.get('exception') and not nr.get('exception')):
                engine_errors.append(f"{o['harness']}{json.dumps(o['config'], sort_keys=True)}: {o['name']}: interpreter and CPython disagree on the counter-model ({verdict}); see {path}")
            else:
                # The solver's witness lives in the slack of a library contract (softmax, rounding, rsqrt are specified by properties, not
                # computed).  Look for a failing input of the REAL code among other candidate inputs of the same configuration: the
                # counter-models of the other paths, the inputs sampled from the path conditions, random perturbations of the witness.
                alt = _witness_search(o, groups[(o['harness'], o['name'], json.dumps(o['config'], sort_keys=True))], results, seed) if not args.no_native else None
                if alt is not None:
                    rec['model_of_the_solver'] = rec['model']
                    rec['model'], rec['native'], rec['verdict'] = alt[0], alt[1], 'reproduced'
                    rec['witness_note'] = 'failing input of the real code found by evaluating candidate inputs of the refuted configuration (the solver model did not reproduce)'
                    json.dump(rec, open(path, 'w'), indent=1, default=str)
                    violations.append((o, path, ''))
                else:
                    violations.append((o, path, ' no-failing-input-found'))

    # ------------------------------------------------------------------ CPython cross-check of the interpreter
    cc = dict(samples=0, agreed=0, mismatches=[], skipped=0)
    if not args.no_native:
        cc = crosscheck(jobs, results, seed, args.jobs)
        for mm in cc['mismatches']:
            engine_errors.append('cross-check: ' + mm)
        # configurations with obligations the solver left undecided: evaluate the real code on random perturbations of the sampled inputs as well
        # (sampled inputs are dyadic and often degenerate - equal coefficients, zeros - which hides differences)
        try:
            cc.setdefault('native_failures', []).extend(_probe_undecided(jobs, results, seed))
        except Exception as e:
            engine_errors.append(f'native probe of undecided configurations failed: {e}')
        # clauses that the real code fails on a sampled input of the path conditions (e.g. while the solver ran out of budget on them)
        reported = {(o['harness'], o['name'], json.dumps(o['config'], sort_keys=True)) for o, _, _ in violations}
        reported |= {(o['harness'], o['name'], json.dumps(o['config'], sort_keys=True)) for _, o, _ in known_hits}
        for job, nm, inp, nr in cc.get('native_failures', []):
            mt = re.match(r'\[([C0-9, ]+)\] ', nm)
            if mt and pid not in [x.strip() for x in mt.group(1).split(',')]:
                continue
            key = (job['name'], nm, json.dumps(job['config'], sort_keys=True))
            if key in reported:
                continue
            reported.add(key)
            o = dict(harness=job['name'], name=nm, config=job['config'], module=job['module'], fn=job['fn'], kind='post', backend='none', model=inp)
            k = known_match(known, job['name'], nm, job['config'])
            if k is not None:
                known_hits.append((k, o, 'reproduced'))
                groups.setdefault(key, []).append(o)
                continue
            h = hashlib.sha1((pid + job['name'] + nm + json.dumps(job['config'], sort_keys=True)).encode()).hexdigest()[:10]
            path = os.path.join(EVDIR, 'replays', f'{pid}_{h}.json')
            rec = dict(property=pid, obligation=nm, kind='post', harness=job['name'], module=job['module'], fn=job['fn'], config=job['config'], solver='none',
                       solver_output='no solver verdict used: the clause fails on the real code for an input sampled from the explored path conditions (pre-conditions hold)',
                       model=inp, native=nr, verdict='reproduced', replay_cmd=f'python3-vt -m pyvc.check {pid} --replay {path}')
            json.dump(rec, open(path, 'w'), indent=1, default=str)
            groups.setdefault(key, []).append(o)
            violations.append((o, path, ''))

    # ------------------------------------------------------------------ verdict, evidence
    printed = set()
    for k, o, verdict in known_hits:
        line = f"KNOWN-FINDING: property={pid} {o['harness']}/{o['name']} {k.get('what', '')}"
        if line not in printed:
            print(line)
            printed.add(line)
    for o, path, suffix in violations:
        print(f'VIOLATION property={pid} replay={path}{suffix}')
    for s in spurious + undecided:
        print('UNDECIDED:', s)
    for e in engine_errors:
        print('ENGINE-ERROR:', e)
    helper_names = {h['name'] for _, h in harnesses if h.get('helper')}
    nob = len(all_obls)
    n_known = sum(len(groups[(o['harness'], o['name'], json.dumps(o['config'], sort_keys=True))]) for _, o, _ in known_hits)
    level = pmeta.get('level', 'other')
    if level == 'proof' and (discharged != nob or undecided or spurious):
        level = 'other'
    samples = []
    seen = set()
    for o in all_obls:
        if (o['harness'], o['name']) in seen:
            continue
        seen.add((o['harness'], o['name']))
        samples.append(dict(obligation=f"{pid}/{o['harness']}/{o['name']}", kind=o['kind'], config=o['config'], status=o['status'],
                            backend=o['backend'], seconds=o['time'], path_condition_conjuncts=o['size']))
    functions = sorted({f for _, h in harnesses for f in h.get('functions', [])})
    executed = sorted(touched)
    declared_not_executed = [f for f in functions if f not in touched and '<' not in f and '*' not in f]
    patched = sorted({x for r in results if not r['error'] for x in r.get('patched', [])})
    n_benign = 0
    ev = dict(
        property_id=pid, tier=tier, seed=seed, level=level,
        coverage=dict(
            obligations=nob, discharged=discharged, refuted_known_findings=n_known,
            refuted_undefined_intermediates_not_reaching_the_result=sum(benign_n),
            assumed_contracts_on_callees=[f'{x} (replaced by a harness-provided contract: H.patch)' for x in patched],
            refuted_new=sum(len(groups[(o['harness'], o['name'], json.dumps(o['config'], sort_keys=True))]) for o, _, _ in violations),
            undecided=len(undecided) + len(spurious),
            checker_cmd=f'python3-vt -m pyvc.check {pid} --tier {tier}',
            trusted_base=TRUSTED_BASE + pmeta.get('trusted', []),
            explanation=pmeta.get('explanation', ''),
            functions_under_contract=functions,
            functions_executed_from_repo_source=[f'{k} sha1:{touched[k]}' for k in executed],
            declared_but_not_executed=declared_not_executed,
            harness_configurations=len(jobs),
            paths_explored=sum(r['stats'].get('paths', 0) + r['stats'].get('cut', 0) for r in results if not r['error']),
            solver_seconds=round(solver_time, 3), backends=backends,
            slow_obligations=[f"{o['harness']}/{o['name']} {o['time']}s" for o in all_obls if o['time'] > 3][:20],
            canaries=dict(checked=len([r for r in results if not r['error']]), refuted_as_required=len([r for r in results if r.get('canary') == 'sat'])),
            crosscheck=dict(samples=cc['samples'], agreed=cc['agreed'], skipped=cc['skipped'], mismatches=cc['mismatches'][:10]),
            not_decided=pmeta.get('not_decided', []),
            bounded_stand_ins=sorted(set(f"{h['name']}: {h['bounded']}" for _, h in harnesses if h.get('bounded'))),
            obligations_from_bounded_stand_ins=sum(1 for o in all_obls if o['harness'] in {h['name'] for _, h in harnesses if h.get('bounded')}),
            discharged_not_counting_bounded_stand_ins=sum(1 for o in all_obls if o['status'] == 'discharged' and o['harness'] not in {h['name'] for _, h in harnesses if h.get('bounded')}),
            extraction_drops=EXTRACTION_DROPS,
            known_findings=[dict(obligation=f"{o['harness']}/{o['name']}", config=o['config'], what=k.get('what', ''), replay=v) for k, o, v in known_hits],
            undecided_list=(undecided + spurious)[:50], engine_errors=engine_errors[:20],
            harness_configurations_abandoned_after_a_violation=[f"{jobs_all[i]['name']}{json.dumps(jobs_all[i]['config'], sort_keys=True)}" for i in abandoned][:40],
            undefined_intermediates_not_reaching_the_result=benign[:40],
            samples=samples[:60],
        ),
        assumptions=TRUSTED_BASE + pmeta.get('assumptions', []),
        wall_s=round(time.time() - t0, 2),
        violations=len(violations),
    )
    os.makedirs(EVDIR, exist_ok=True)
    json.dump(ev, open(os.path.join(EVDIR, f'{pid}.json'), 'w'), indent=1, default=str)
    print(f'{pid} [{tier}] obligations={nob} discharged={discharged} known-findings={n_known} violations={len(violations)} '
          f'undecided={len(undecided) + len(spurious)} engine-errors={len(engine_errors)} crosscheck={cc["agreed"]}/{cc["samples"]} '
          f'wall={ev["wall_s"]}s')
    if violations:
        return 1
    if engine_errors:
        return 3
    if undecided or spurious:
        return 2
    return 0


def _probe_undecided(jobs, results, seed, per_job=8):
    """for every configuration that has an obligation with status unknown: random perturbations of its sampled inputs, evaluated on the REAL code only;
    returns (job, clause, input, native result) for every clause that fails on an input satisfying the pre-conditions"""
    rnd = random.Random(seed * 17 + 3)
    tasks, owners = [], []
    for job, res in zip(jobs, results):
        if res['error'] or not job.get('native', True) or not res.get('cc_inputs'):
            continue
        if not any(o['status'] not in ('discharged', 'refuted') for o in res['obligations']):
            continue
        for k in range(per_job):
            base = dict(res['cc_inputs'][k % len(res['cc_inputs'])])
            for key in base:
                v = base[key]
                if isinstance(v, bool) or not isinstance(v, (str, int, float)):
                    continue
                if isinstance(v, int) and not isinstance(v, bool):
                    if rnd.random() < 0.3:
                        base[key] = v + rnd.randint(-2, 2)
                elif rnd.random() < 0.7:
                    base[key] = str(fractions.Fraction(rnd.randint(-40, 40), 16))
            tasks.append(dict(module=job['module'], fn=job['fn'], config=job['config'], inputs=base))
            owners.append((job, base))
    if not tasks:
        return []
    out = []
    for (job, inp), n in zip(owners, native_batch(tasks)):
        if n is None or n.get('status') != 'ok':
            continue
        for nm, okk in n.get('ensures', []):
            if not okk:
                out.append((job, nm, inp, n))
    return out


def crosscheck(jobs, results, seed, njobs):
    """concrete inputs satisfying the harness preconditions are drawn from the path conditions by the solver (dyadic values),
    the harness is executed concretely by the interpreter and natively by CPython; ensures/observations/exceptions must agree"""
    cc = dict(samples=0, agreed=0, mismatches=[], skipped=0)
    todo = []
    for job, res in zip(jobs, results):
        if res['error'] or not job.get('crosscheck'):
            continue
        for inp in res.get('cc_inputs', [])[:job['crosscheck']]:
            todo.append((job, inp))
    if not todo:
        return cc
    ctx = mp.get_context('fork')
    with ctx.Pool(min(njobs, len(todo))) as pool:
        conc = pool.map(_concrete_worker, todo, chunksize=1)
    tasks = [dict(module=j['module'], fn=j['fn'], config=j['config'], inputs=inp) for j, inp in todo]
    try:
        nat = native_batch(tasks)
    except Exception as e:
        cc['mismatches'].append(f'native runner failed: {e}')
        return cc
    for (job, inp), c, n in zip(todo, conc, nat):
        tag = f"{job['name']}{json.dumps(job['config'], sort_keys=True)}"
        if c['status'].startswith('unsupported') or c['status'].startswith('engine-error'):
            if c['status'].startswith('engine-error'):
                cc['mismatches'].append(f'{tag}: {c["status"]}')
            else:
                cc['skipped'] += 1
            continue
        cc['samples'] += 1
        ok = True
        why = ''
        if c['status'] != n['status']:
            ok, why = False, f"status {c['status']} vs native {n['status']}"
        elif (c['exception'] or None) != (n['exception'] or None):
            ok, why = False, f"exception {c['exception']} vs native {n['exception']} {n.get('exception_msg', '')}"
        elif [list(x) for x in c['ensures']] != [list(x) for x in n['ensures']]:
            d = [(a, b) for a, b in zip(c['ensures'], n['ensures']) if list(a) != list(b)][:3]
            ok, why = False, f'ensure verdicts differ: {d} (lengths {len(c["ensures"])}/{len(n["ensures"])})'
        elif not close(c['observations'], n['observations']):
            d = [k for k in c['observations'] if not close(c['observations'].get(k), n['observations'].get(k))][:3]
            ok, why = False, f'observations differ at {d}: ' + '; '.join(f'{k}: {c["observations"].get(k)} vs {n["observations"].get(k)}' for k in d)[:400]
        if ok:
            cc['agreed'] += 1
        else:
            cc['mismatches'].append(f'{tag}: {why}; inputs={json.dumps(inp)[:300]}')
        # an input that satisfies the pre-conditions and on which the REAL code fails a clause is a failing input, whatever the solver said
        if n.get('status') == 'ok':
            for nm, okk in n.get('ensures', []):
                if not okk:
                    cc.setdefault('native_failures', []).append((job, nm, inp, n))
            if n.get('exception'):
                cc.setdefault('native_failures', []).append((job, f"harness:no-unexpected-exception[{n['exception']}]", inp, n))
    return cc


def do_replay(path):
    rec = json.load(open(path))
    res = native_batch([dict(module=rec['module'], fn=rec['fn'], config=rec['config'], inputs=rec['model'] or {})])[0]
    failing = [n for n, ok in res['ensures'] if not ok]
    print(json.dumps(dict(obligation=rec['obligation'], native_failing_clauses=failing, exception=res.get('exception'),
                          exception_msg=res.get('exception_msg'), status=res['status']), indent=1))
    if rec['obligation'] in failing or res.get('exception'):
        print(f"VIOLATION property={rec['property']} replay={path}")
        return 1
    return 0


if __name__ == '__main__':
    sys.exit(main())
