"""Native side of the dual-mode harnesses: runs the SAME harness source under CPython against the real plinio/torch.

Used for (a) replaying a counter-model of a refuted obligation on the real code and (b) the CPython cross-check of the
interpreter's semantics.  Run with /venv/bin/python:   python -m pyvc.native tasks.json out.json
Imports only the standard library and torch (never z3).
"""
import importlib
import json
import math
import os
import sys
import traceback
import zlib
from fractions import Fraction

REPO = os.environ.get('PYVC_REPO', '/repo')
VERIF = os.path.dirname(os.path.dirname(os.path.abspath(__file__)))
RTOL, ATOL = 1e-5, 1e-7


class AssumeFailed(Exception):
    pass


def num(v):
    if isinstance(v, str):
        if v in ('True', 'False'):
            return v == 'True'
        try:
            return float(Fraction(v))
        except Exception:
            return float('nan')
    return v


class HNative:
    mode = 'native'
    symbolic = False

    def __init__(self, inputs):
        import torch
        self.torch = torch
        self.inputs = inputs or {}
        self.ensures = []
        self.observations = {}
        self.missing = []

    # ---------------------------------------------------------------- inputs
    def _get(self, name, default):
        if name in self.inputs:
            return num(self.inputs[name])
        self.missing.append(name)
        return default

    def real(self, name):
        return float(self._get(name, 0.0))

    def int(self, name):
        return int(self._get(name, 0))

    def bool(self, name):
        return bool(self._get(name, False))

    def reals(self, name, n):
        return [self.real(f'{name}[{i}]') for i in range(n)]

    def ints(self, name, n):
        return [self.int(f'{name}[{i}]') for i in range(n)]

    def tensor(self, name, shape):
        shape = tuple(shape) if isinstance(shape, (tuple, list)) else (shape,)
        n = 1
        for s in shape:
            n *= s
        return self.torch.tensor([self.real(f'{name}[{i}]') for i in range(n)], dtype=self.torch.get_default_dtype()).reshape(shape)

    def itensor(self, name, shape):
        shape = tuple(shape) if isinstance(shape, (tuple, list)) else (shape,)
        n = 1
        for s in shape:
            n *= s
        return self.torch.tensor([self.int(f'{name}[{i}]') for i in range(n)], dtype=self.torch.int64).reshape(shape)

    def scalar_tensor(self, v):
        return self.torch.tensor(v)

    def const_tensor(self, values):
        return self.torch.tensor(values)

    def index(self, name, n):
        i = self.int(name)
        self.assume(0 <= i < n)
        return i

    def ufun(self, name, arity, ret='real'):
        table = self.inputs.get('ufun:' + name, {})

        def f(*args):
            key = ','.join(_keystr(a) for a in args)
            if key in table.get('entries', {}):
                return _cast(num(table['entries'][key]), ret)
            if 'else' in table:
                return _cast(num(table['else']), ret)
            h = zlib.crc32((name + '|' + key).encode()) % 1000
            return {'real': h / 10.0, 'int': h, 'bool': bool(h % 2)}[ret]
        return f

    # ---------------------------------------------------------------- state
    def set_(self, param, value):
        torch = self.torch
        if not torch.is_tensor(value):
            value = torch.tensor(value, dtype=torch.get_default_dtype())
        if tuple(param.shape) != tuple(value.shape):
            raise RuntimeError(f'set_: shape {tuple(value.shape)} does not match {tuple(param.shape)}')
        param.data = value.detach().clone().to(param.dtype)      # keep the dtype the library chose (masks are float32 explicitly)
        return param

    def patch(self, module, name, value):
        m = importlib.import_module(module)
        self._patched = getattr(self, '_patched', [])
        self._patched.append((m, name, getattr(m, name)))
        setattr(m, name, value)

    def unpatch_all(self):
        for m, name, old in reversed(getattr(self, '_patched', [])):
            setattr(m, name, old)
        self._patched = []

    def bare(self, cls):
        o = cls.__new__(cls)
        self.torch.nn.Module.__init__(o)
        return o

    def set_requires_grad(self, t, v):
        t.requires_grad_(bool(v))

    def get_requires_grad(self, t):
        return bool(t.requires_grad)

    def named_parameters(self, module):
        return list(module.named_parameters())

    def scalar(self, t):
        if self.torch.is_tensor(t):
            return t.item()
        return t

    def shape(self, t):
        return tuple(t.shape)

    def elements(self, t):
        return [x.item() for x in t.reshape(-1)]

    def is_tensor(self, t):
        return self.torch.is_tensor(t)

    def requires_grad(self, t):
        return bool(t.requires_grad)

    def is_parameter(self, t):
        return isinstance(t, self.torch.nn.Parameter)

    def same_object(self, a, b):
        return a is b

    def type_name(self, o):
        return type(o).__name__

    # ---------------------------------------------------------------- clauses
    def assume(self, c):
        if not self._b(c):
            raise AssumeFailed()

    def ensure(self, name, c, kind='post'):
        self.ensures.append((name, bool(self._b(c))))

    def unreachable(self, name):
        self.ensures.append((name, False))

    def observe(self, name, v):
        self.observations[name] = plain(v)

    def cover(self, name):
        pass

    def _b(self, c):
        if self.torch.is_tensor(c):
            return bool(c.all().item()) if c.numel() != 1 else bool(c.item())
        return bool(c)

    # ---------------------------------------------------------------- logic (tolerant in the direction of "holds")
    def and_(self, *xs):
        return all(self._b(x) for x in xs)

    def or_(self, *xs):
        return any(self._b(x) for x in xs)

    def not_(self, x):
        return not self._b(x)

    def implies(self, a, b):
        return (not self._b(a)) or self._b(b)

    def iff(self, a, b):
        return self._b(a) == self._b(b)

    def ite(self, c, a, b):
        return self.scalar(a) if self._b(c) else self.scalar(b)

    def _pair(self, a, b):
        torch = self.torch
        if torch.is_tensor(a) or torch.is_tensor(b):
            a = a if torch.is_tensor(a) else torch.tensor(a)
            b = b if torch.is_tensor(b) else torch.tensor(b)
            return a.double(), b.double()
        return None

    def eq(self, a, b):
        if a is None or b is None:
            return a is b
        if isinstance(a, (tuple, list)) and isinstance(b, (tuple, list)):
            return len(a) == len(b) and all(self.eq(x, y) for x, y in zip(a, b))
        p = self._pair(a, b)
        if p is not None:
            x, y = p
            if x.numel() != 1 and y.numel() != 1 and x.shape != y.shape:
                return False
            return bool(self.torch.isclose(x, y, rtol=RTOL, atol=ATOL).all().item())
        if isinstance(a, bool) or isinstance(b, bool) or isinstance(a, str) or isinstance(b, str):
            return a == b
        return math.isclose(a, b, rel_tol=RTOL, abs_tol=ATOL)

    def ne(self, a, b):
        return not self.eq(a, b) if False else (self._exact_ne(a, b))

    def _exact_ne(self, a, b):
        p = self._pair(a, b)
        if p is not None:
            return bool((p[0] != p[1]).any().item())
        return a != b

    def _tol(self, a, b):
        return ATOL + RTOL * max(abs(a), abs(b))

    def _cmp(self, a, b, f):
        if isinstance(a, (tuple, list)) and isinstance(b, (tuple, list)):
            return len(a) == len(b) and all(self._cmp(x, y, f) for x, y in zip(a, b))
        p = self._pair(a, b)
        if p is not None:
            x, y = self.torch.broadcast_tensors(*p)
            return all(f(u, v) for u, v in zip(x.reshape(-1).tolist(), y.reshape(-1).tolist()))
        return f(a, b)

    # order comparisons are exact (they also occur in antecedents); only equality is tolerant (float round-off)
    def le(self, a, b):
        return self._cmp(a, b, lambda u, v: u <= v)

    def lt(self, a, b):
        return self._cmp(a, b, lambda u, v: u < v)

    def ge(self, a, b):
        return self._cmp(a, b, lambda u, v: u >= v)

    def gt(self, a, b):
        return self._cmp(a, b, lambda u, v: u > v)

    def all(self, t):
        if self.torch.is_tensor(t):
            return bool(t.bool().all().item())
        return all(self._b(x) for x in t)

    def any(self, t):
        if self.torch.is_tensor(t):
            return bool(t.bool().any().item())
        return any(self._b(x) for x in t)

    def sum(self, xs):
        if self.torch.is_tensor(xs):
            return xs.sum().item()
        return sum(self.scalar(x) for x in xs)

    def count(self, bools):
        if self.torch.is_tensor(bools):
            return int(bools.bool().sum().item())
        return sum(1 for x in bools if self._b(x))

    def abs(self, x):
        return abs(self.scalar(x))

    def min(self, a, b):
        return min(self.scalar(a), self.scalar(b))

    def max(self, a, b):
        return max(self.scalar(a), self.scalar(b))

    def floor(self, x):
        return math.floor(self.scalar(x))

    def ceil(self, x):
        return math.ceil(self.scalar(x))

    def is_integer(self, x):
        x = self.scalar(x)
        return abs(x - round(x)) <= ATOL + RTOL * abs(x)

    def div(self, a, b):
        return self.scalar(a) / self.scalar(b)

    def mul(self, a, b):
        return self.scalar(a) * self.scalar(b)

    def add(self, a, b):
        return self.scalar(a) + self.scalar(b)

    def sub(self, a, b):
        return self.scalar(a) - self.scalar(b)

    def forall(self, n, f):
        return all(self._b(f(i)) for i in range(n))

    def exists(self, n, f):
        return any(self._b(f(i)) for i in range(n))

    def concretize(self, v):
        return int(self.scalar(v))

    def branch(self, c):
        return self._b(c)

    # ---------------------------------------------------------------- fx
    def fx_chain(self, named_modules):
        torch = self.torch
        import torch.fx as fx
        root = torch.nn.Module()
        g = fx.Graph()
        prev = g.placeholder('x')
        nodes = []
        for name, m in named_modules:
            root.add_module(name, m)
            prev = g.call_module(name, (prev,))
            nodes.append(prev)
        g.output(prev)
        gm = fx.GraphModule(root, g)
        return gm, [n for n in gm.graph.nodes if n.op == 'call_module']

    def fx_function_node(self, fn, n_inputs, extra_args=(), kwargs=None):
        import torch.fx as fx
        g = fx.Graph()
        ins = tuple(g.placeholder('x%d' % i) for i in range(n_inputs))
        return g.call_function(fn, (ins,) + tuple(extra_args), dict(kwargs or {}))

    def fx_graph(self, spec, modules=None, list_args=()):
        import torch.fx as fx
        torch = self.torch
        root = torch.nn.Module()
        g = fx.Graph()
        nodes = {}
        modules = modules or {}

        def put(path, m):
            cur = root
            parts = path.split('.')
            for p_ in parts[:-1]:
                if not hasattr(cur, p_):
                    cur.add_module(p_, torch.nn.Module())
                cur = getattr(cur, p_)
            cur.add_module(parts[-1], m)
        for name, op, inputs, meta in spec:
            ins = tuple(nodes[i] for i in inputs)
            args = (list(ins),) if name in list_args else ins
            if op == 'placeholder':
                n = g.placeholder(name)
            elif op == 'output':
                n = g.output(ins[0] if len(ins) == 1 else ins)
            elif op == 'call_module':
                target = name.split('@')[0]
                try:
                    root.get_submodule(target)
                except AttributeError:
                    put(target, modules[target] if target in modules else torch.nn.Identity())
                n = g.call_module(target, args)
            else:
                n = g.call_function(torch.add if len(ins) == 2 else torch.relu, ins)
            n.meta.update(meta)
            nodes[name] = n
        return fx.GraphModule(root, g), nodes

    def fx_module_names(self, gm):
        names = set()
        for n in gm.graph.nodes:
            pass
        return sorted(name for name, m in gm.named_modules() if name and type(m) is not self.torch.nn.Module)

    def fx_run(self, gm, x):
        gm.graph.lint()
        gm.recompile()
        return gm(x)

    def fx_modules(self, gm):
        return [(str(n.target), gm.get_submodule(str(n.target))) for n in gm.graph.nodes if n.op == 'call_module']

    # ---------------------------------------------------------------- mode B (native: concrete sequences)
    def invariant(self, *a, **k):
        pass


def _cast(v, ret):
    return {'real': float, 'int': int, 'bool': bool}[ret](v)


def _keystr(a):
    try:
        import torch
        if torch.is_tensor(a):
            a = a.item()
    except Exception:
        pass
    if isinstance(a, bool):
        return str(int(a))
    if isinstance(a, int):
        return str(a)
    return str(Fraction(float(a)).limit_denominator(10 ** 9))


def plain(v):
    try:
        import torch
        if torch.is_tensor(v):
            return {'shape': list(v.shape), 'els': [plain(x) for x in v.detach().reshape(-1).tolist()]}
    except Exception:
        pass
    if isinstance(v, (list, tuple)):
        return [plain(x) for x in v]
    if isinstance(v, dict):
        return {str(k): plain(x) for k, x in v.items()}
    if isinstance(v, bool) or v is None or isinstance(v, (int, str)):
        return v
    if isinstance(v, float):
        return v if math.isfinite(v) else str(v)
    return str(v)


def run_task(task):
    import torch
    torch.set_default_dtype(torch.float32 if os.environ.get('PYVC_NATIVE_DTYPE') == 'float32' else torch.float64)
    out = dict(ensures=[], observations={}, exception=None, status='ok', missing=[])
    H = HNative(task.get('inputs'))
    try:
        mod = importlib.import_module(task['module'])
        f = getattr(mod, task['fn'])
        f(H, **task.get('config', {}))
    except AssumeFailed:
        out['status'] = 'assume-failed'
    except Exception as e:
        out['exception'] = type(e).__name__
        out['exception_msg'] = str(e)[:300]
        out['traceback'] = traceback.format_exc()[-1200:]
    H.unpatch_all()
    out['ensures'] = H.ensures
    out['observations'] = H.observations
    out['missing'] = H.missing[:10]
    return out


def main():
    sys.path.insert(0, VERIF)
    sys.path.insert(0, REPO)
    import torch
    torch.set_num_threads(1)
    torch.manual_seed(0)
    tasks = json.load(open(sys.argv[1]))
    res = [run_task(t) for t in tasks]
    json.dump(res, open(sys.argv[2], 'w'))


if __name__ == '__main__':
    main()
