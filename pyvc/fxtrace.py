"""Executable library contract of torch.fx symbolic tracing, GraphModule and ShapeProp (used to put the convert() pipelines of
plinio under contract).  What is modelled - and compared with the real torch.fx by the cross-check on every run:

* Tracer.trace(root): the forward of `root` is executed with Proxy arguments; a call of a sub-module for which the tracer's own
  is_leaf_module(m, qualified_name) - the method of the REPOSITORY subclass - answers True becomes a `call_module` node, other modules
  are traced through; a library function / tensor method / operator applied to a Proxy becomes a call_function / call_method node.
* GraphModule(root, graph, name): an nn.Module holding the graph and, under the same qualified names, the SAME sub-module objects the
  graph calls (intermediate containers are plain nn.Module, as in torch.fx); forward = evaluation of the node list.
* ShapeProp(gm).propagate(*args): evaluates the node list on the example input (with every side effect of the sub-modules' forward)
  and records meta['tensor_meta'] (a 7-field record with .shape) on every node that produced a tensor.

Not modelled (Unsupported -> undecided, never a verdict): control flow on Proxy values, len()/iteration of a Proxy, get_attr nodes,
*args/**kwargs in forward signatures, Proxy attribute reads other than method calls and .shape.
"""
from . import interp as I
from .sym import Unsupported
from .tensor import Tensor


class Proxy:
    def __init__(self, node, ctx):
        self.node, self.ctx = node, ctx

    def __repr__(self):
        return f'<proxy {self.node.name}>'


class ProxyAttr:
    """proxy.attr : a method call if called, a getattr node if used as a value"""
    def __init__(self, proxy, name):
        self.proxy, self.name = proxy, name
        self._node = None

    def value(self):
        if self._node is None:
            ctx = self.proxy.ctx
            self._node = ctx.add('call_function', ctx.it.builtins['getattr'], (self.proxy.node, self.name), {}, name='getattr')
        return Proxy(self._node, self.proxy.ctx)


class TensorMeta:
    """torch.fx.passes.shape_prop.TensorMetadata: (shape, dtype, requires_grad, stride, memory_format, is_quantized, qparams)"""
    def __init__(self, shape):
        self.shape = tuple(shape)
        self.dtype = 'float32'
        self.requires_grad = False
        self.is_quantized = False
        self.qparams = {}

    def _fields(self):
        return (self.shape, self.dtype, self.requires_grad, None, None, self.is_quantized, self.qparams)

    def __len__(self):
        return 7

    def __getitem__(self, i):
        return self._fields()[i]

    def __iter__(self):
        return iter(self._fields())

    def __eq__(self, o):
        return isinstance(o, TensorMeta) and o.shape == self.shape

    def __hash__(self):
        return hash(self.shape)


BINOPS = {'Add': 'add', 'Sub': 'sub', 'Mult': 'mul', 'Div': 'truediv'}      # ast operator -> name in the `operator` module of the model


class TraceCtx:
    def __init__(self, it, tracer, root, graph, node_cls):
        self.it, self.tracer, self.root, self.graph, self.node_cls = it, tracer, root, graph, node_cls
        self.names = {}
        self.used = {}
        self.names_used = set()
        for name, m in it.call(it.getattr(root, 'named_modules'), [], {}):
            self.names.setdefault(id(m), name)

    def fresh_name(self, candidate):
        """torch.fx.graph._Namespace.create_name"""
        import re, keyword, builtins
        candidate = re.sub('[^0-9a-zA-Z_]+', '_', candidate) or '_unnamed'
        if candidate[0].isdigit():
            candidate = '_' + candidate
        m = re.match(r'^([a-zA-Z_][0-9a-zA-Z_]*?)(?:_(\d+))?$', candidate)
        if m is None:
            base, num = candidate, None
        else:
            base, num = m.group(1), (int(m.group(2)) if m.group(2) else None)
        candidate = base if num is None else f'{base}_{num}'
        if not num:
            num = self.used.get(base, 0)
        illegal = lambda c: c in keyword.kwlist or c in builtins.__dict__ or c in ('inf', 'nan', 'NoneType', 'torch', 'device', 'fx_pytree', 'pytree')
        while candidate in self.names_used or illegal(candidate):
            num += 1
            candidate = f'{base}_{num}'
        self.names_used.add(candidate)
        self.used[base] = num
        return candidate

    def add(self, op, target, args, kwargs, name=None):
        if name is None:
            if op == 'call_module' or op == 'call_method' or op == 'placeholder':
                name = str(target)
            elif op == 'output':
                name = 'output'
            else:
                name = self.it.fx_functions.get(id(target)) or getattr(target, '__name__', None) or 'fn'
                name = name.split('.')[-1]
        n = self.node_cls(self.graph, op, target, tuple(args), self.fresh_name(name))
        n.kwargs = dict(kwargs)
        self.graph._nodes.append(n)
        return n

    # ------------------------------------------------------------------ argument handling
    def has_proxy(self, a):
        if isinstance(a, (Proxy, ProxyAttr)):
            return True
        if isinstance(a, (list, tuple)):
            return any(self.has_proxy(x) for x in a)
        if isinstance(a, dict):
            return any(self.has_proxy(x) for x in a.values())
        return False

    def unwrap(self, a):
        if isinstance(a, Proxy):
            return a.node
        if isinstance(a, ProxyAttr):
            return a.value().node
        if isinstance(a, list):
            return [self.unwrap(x) for x in a]
        if isinstance(a, tuple):
            return tuple(self.unwrap(x) for x in a)
        if isinstance(a, dict):
            return {k: self.unwrap(v) for k, v in a.items()}
        if isinstance(a, Tensor):
            raise Unsupported('tensor constant captured while tracing (get_attr node)')
        return a

    # ------------------------------------------------------------------ interception points (called by the interpreter)
    def call_module(self, m, args, kwargs):
        """returns a Proxy if `m` is a leaf for the tracer, else None (the caller then executes m.forward on the proxies)"""
        if not (self.has_proxy(args) or self.has_proxy(kwargs)):
            return None
        qual = self.names.get(id(m))
        if qual is None:
            raise Unsupported('module called while tracing is not a sub-module of the traced root')
        it = self.it
        it.tracing = None
        try:
            leaf = it.py_truth(it.call(it.getattr(self.tracer, 'is_leaf_module'), [m, qual], {}))
        finally:
            it.tracing = self
        if not leaf:
            return None
        return Proxy(self.add('call_module', qual, self.unwrap(list(args)), self.unwrap(kwargs)), self)

    def call_function(self, f, args, kwargs):
        return Proxy(self.add('call_function', f, self.unwrap(list(args)), self.unwrap(kwargs)), self)

    def call_method(self, pa, args, kwargs):
        return Proxy(self.add('call_method', pa.name, [pa.proxy.node] + self.unwrap(list(args)), self.unwrap(kwargs)), self)

    def binop(self, opname, a, b):
        f = self.it.libs['operator'].__dict__.get(BINOPS.get(opname, '?'))
        if f is None:
            raise Unsupported(f'operator {opname} on a Proxy')
        return Proxy(self.add('call_function', f, self.unwrap([a, b]), {}, name=BINOPS[opname]), self)

    def getitem(self, a, k):
        return Proxy(self.add('call_function', self.it.libs['operator'].getitem, self.unwrap([a, k]), {}, name='getitem'), self)


def trace(it, tracer, root, graph_cls, node_cls):
    """Tracer.trace: returns the graph of root.forward"""
    graph = graph_cls()
    ctx = TraceCtx(it, tracer, root, graph, node_cls)
    fwd = it.getattr(root, 'forward')
    clo = fwd.clo if isinstance(fwd, I.Bound) else None
    if clo is not None:
        a = clo.fn.args
        if a.vararg is not None or a.kwarg is not None:
            raise Unsupported('tracing a forward with *args / **kwargs')
        params = [p.arg for p in a.posonlyargs + a.args][1:]
        params = params[:len(params) - len(a.defaults)]   # parameters with defaults keep their default (kept simple)
    elif isinstance(root, I.Obj) and 'graph' in root.attrs:
        # re-tracing a GraphModule: its forward is the evaluation of its node list
        params = [str(n.target) for n in root.attrs['graph'].nodes if n.op == 'placeholder']
    else:
        raise Unsupported('tracing a root whose forward is not interpreted python')
    proxies = [Proxy(ctx.add('placeholder', p, (), {}), ctx) for p in params]
    prev = getattr(it, 'tracing', None)
    it.tracing = ctx
    try:
        out = it.call(fwd, proxies, {})
    finally:
        it.tracing = prev
    ctx.add('output', 'output', (ctx.unwrap(out),), {})
    return graph


def run_graph(it, graph, get_module, args, record=None):
    """evaluation of the node list (GraphModule.forward / ShapeProp.propagate)"""
    vals = {}
    out = None
    args = list(args)

    def val(a):
        if type(a).__name__ == 'FxNode':
            return vals[a]
        if isinstance(a, list):
            return [val(x) for x in a]
        if isinstance(a, tuple):
            return tuple(val(x) for x in a)
        if isinstance(a, dict):
            return {k: val(v) for k, v in a.items()}
        return a
    for n in graph.nodes:
        if n.op == 'placeholder':
            if not args:
                raise I.RaiseEx(TypeError('forward() missing a required positional argument'))
            r = args.pop(0)
        elif n.op == 'call_module':
            r = it.call(get_module(str(n.target)), val(list(n.args)), val(n.kwargs))
        elif n.op == 'call_function':
            r = it.call(n.target, val(list(n.args)), val(n.kwargs))
        elif n.op == 'call_method':
            a, k = val(list(n.args)), val(n.kwargs)
            r = it.call(it.getattr(a[0], n.target), a[1:], k)
        elif n.op == 'output':
            out = val(n.args[0])
            r = out
        else:
            raise Unsupported(f'fx node kind {n.op}')
        vals[n] = r
        if record is not None:
            record(n, r)
    return out
