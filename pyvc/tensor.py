"""Tensor model: concrete shape, row-major list of leaves (python numbers or z3 terms).

This is the executable specification ("assumed contract on the dependency") of the torch operators that the
functions under contract use.  It is differentially tested against the real torch by the cross-check of every
harness (pyvc.native) - see DESIGN.md 2.5.  Views are modelled as copies except `.data` / `.detach()`, which alias
(in-place updates through them are visible, as in torch).
"""
import math
import fractions
import itertools
import z3
from .sym import (Unsupported, is_sym, to_real, to_num, s_add, s_sub, s_mul, s_div, s_abs, s_cmp, s_ite, s_floor,
                  s_round, s_min, s_max, s_and, s_or, s_not, s_neg, s_floordiv, s_mod, s_pow, as_bool, truth,
                  concretize_int, PATH, s_ceil)


def _prod(shape):
    r = 1
    for s in shape:
        r *= s
    return r


def _strides(shape):
    st = []
    acc = 1
    for s in reversed(shape):
        st.append(acc)
        acc *= s
    return tuple(reversed(st))


class Tensor:
    __slots__ = ('shape', '_els', 'requires_grad', 'is_param', 'grad', 'name', '_base', 'idt')

    def __init__(self, shape, els, requires_grad=False, is_param=False):
        self.shape = tuple(int(s) for s in shape)
        self._base = None
        self._els = list(els)
        if len(self._els) != _prod(self.shape):
            raise Unsupported(f'tensor shape {self.shape} does not match {len(self._els)} elements')
        self.requires_grad = requires_grad
        self.is_param = is_param
        self.grad = None
        self.name = None
        self.idt = None              # bit-width of a NARROW signed integer dtype (int32 / int16 / int8) this tensor was explicitly converted to, else None

    # storage: a tensor obtained by basic indexing (ints / slices) is a *view*: reads go to, and in-place writes through to,
    # the root tensor (torch semantics of  t[i].fill_(v),  t.data[i] = v ...)
    @property
    def els(self):
        b = self._base
        if b is None:
            return self._els
        root, offs = b
        r = root._els
        return [r[o] for o in offs]

    @els.setter
    def els(self, v):
        b = self._base
        if b is None:
            self._els = v if isinstance(v, list) else list(v)
            return
        root, offs = b
        v = list(v)
        if len(v) != len(offs):
            self._base = None            # shape-changing assignment detaches the view
            self._els = v
            return
        r = root._els
        for o, x in zip(offs, v):
            r[o] = x

    @staticmethod
    def _view(root, shape, offs):
        t = Tensor.__new__(Tensor)
        t.shape = tuple(shape)
        while root._base is not None:          # views of views address the root
            rr, ro = root._base
            offs = [ro[o] for o in offs]
            root = rr
        t._base = (root, list(offs))
        t._els = None
        t.requires_grad = root.requires_grad
        t.is_param = False
        t.grad = None
        t.name = None
        t.idt = getattr(root, 'idt', None)
        return t

    # ---------------------------------------------------------------- construction
    @staticmethod
    def from_nested(x):
        if isinstance(x, Tensor):
            return Tensor(x.shape, x.els)
        if isinstance(x, (list, tuple)):
            subs = [Tensor.from_nested(e) for e in x]
            if not subs:
                return Tensor((0,), [])
            sh = subs[0].shape
            for s in subs:
                if s.shape != sh:
                    raise Unsupported('ragged nested list')
            return Tensor((len(subs),) + sh, [d for s in subs for d in s.els])
        if isinstance(x, range):
            return Tensor((len(x),), list(x))
        if x is None or isinstance(x, str):
            raise RuntimeError(f'Could not infer dtype of {type(x).__name__}')
        return Tensor((), [x])

    @staticmethod
    def full(shape, v):
        shape = tuple(shape)
        return Tensor(shape, [v] * _prod(shape))

    # ---------------------------------------------------------------- basic protocol
    def numel(self):
        return len(self.els)

    def dim(self):
        return len(self.shape)

    ndim = property(lambda s: len(s.shape))

    def size(self, d=None, dim=None):
        if d is None:
            d = dim
        if d is None:
            return self.shape
        return self.shape[d]

    def __len__(self):
        if not self.shape:
            raise TypeError('len() of a 0-d tensor')
        return self.shape[0]

    def __iter__(self):
        if not self.shape:
            raise TypeError('iteration over a 0-d tensor')
        return (self._index_int(i) for i in range(self.shape[0]))

    def __repr__(self):
        return f'Tensor{self.shape}'

    def __hash__(self):
        return id(self)

    def item(self):
        if self.numel() != 1:
            raise Unsupported('item() of a tensor with several elements')
        return self.els[0]

    def tolist(self):
        if not self.shape:
            return self.els[0]
        return [t.tolist() for t in self]

    # aliasing accessors
    @property
    def data(self):
        # torch: a tensor sharing the storage, detached from autograd (requires_grad False, not a Parameter)
        v = Tensor._view(self, self.shape, range(len(self.els)))
        v.requires_grad = False
        return v

    @data.setter
    def data(self, v):
        v = Tensor.from_nested(v) if not isinstance(v, Tensor) else v
        if v.shape != self.shape:
            self._base = None
        self.shape = v.shape
        self.els = list(v.els)

    def detach(self):
        return self

    def cpu(self):
        return self

    def cuda(self, *a, **k):
        return self

    def to(self, *a, **k):
        """device / floating dtypes: identity on the value model.  An explicit narrow integer dtype (torch.int32 / int16 / int8) is tracked: the values are
        truncated and wrapped, and sums / differences / products of two such tensors wrap like the machine integers (two's complement)"""
        t = self
        for d in list(a) + [k.get('dtype')]:
            if isinstance(d, str) and d.startswith('dtype.'):
                t = t._as_dtype(d[6:])
        return t

    def _as_dtype(self, d):
        if d in ('int32', 'int'):
            return self._narrow_int(32)
        if d == 'int16':
            return self._narrow_int(16)
        if d == 'int8':
            return self._narrow_int(8)
        if d in ('int64', 'long'):
            return self.map(lambda a: s_trunc(a))
        if d == 'bool':
            return self.bool()
        if 'float' in d or d in ('double', 'half'):
            return self.map(to_real)
        return self

    def _narrow_int(self, bits):
        t = self.map(lambda a: _wrap(s_trunc(a), bits))
        t.idt = bits
        return t

    def _result_bits(self, o):
        if self.idt is None:
            return None
        if isinstance(o, Tensor):
            return max(self.idt, o.idt) if o.idt is not None else None
        if isinstance(o, bool) or not (isinstance(o, int) or (is_sym(o) and z3.is_int(o))):
            return None
        return self.idt

    def _arith(self, o, f):
        bits = self._result_bits(o)
        if bits is None:
            return self.zipw(o, f)
        t = self.zipw(o, lambda a, b: _wrap(f(a, b), bits))
        t.idt = bits
        return t

    def contiguous(self):
        return self

    def numpy(self):
        return self

    def clone(self):
        return Tensor(self.shape, self.els)

    def float(self):
        return self.map(to_real)

    def double(self):
        return self.map(to_real)

    def int(self):
        return self._narrow_int(32)             # torch: .int() is int32

    def long(self):
        return self.map(lambda a: s_trunc(a))

    def bool(self):
        return self.map(lambda a: a if isinstance(a, bool) or (is_sym(a) and z3.is_bool(a)) else s_cmp('!=', a, 0))

    def type(self, *a):
        return self

    @property
    def device(self):
        return 'cpu'

    @property
    def dtype(self):
        return 'float32'

    @property
    def T(self):
        return self.transpose(0, 1)

    def requires_grad_(self, v=True):
        self.requires_grad = v
        return self

    # ---------------------------------------------------------------- element-wise
    def map(self, f):
        return Tensor(self.shape, [f(d) for d in self.els])

    def zipw(self, other, f):
        if not isinstance(other, Tensor):
            if isinstance(other, (list, tuple)):
                other = Tensor.from_nested(other)
            else:
                return Tensor(self.shape, [f(a, other) for a in self.els])
        if other.shape == self.shape:
            return Tensor(self.shape, [f(a, b) for a, b in zip(self.els, other.els)])
        shape = broadcast_shape(self.shape, other.shape)
        a = self.expand_to(shape)
        b = other.expand_to(shape)
        return Tensor(shape, [f(x, y) for x, y in zip(a.els, b.els)])

    def expand_to(self, shape):
        shape = tuple(shape)
        if self.shape == shape:
            return self
        off = len(shape) - len(self.shape)
        if off < 0:
            raise Unsupported(f'cannot broadcast {self.shape} to {shape}')
        src = (1,) * off + self.shape
        for s, t in zip(src, shape):
            if s != t and s != 1:
                raise Unsupported(f'cannot broadcast {self.shape} to {shape}')
        st = _strides(src)
        els = []
        for idx in itertools.product(*[range(t) for t in shape]):
            o = 0
            for i, s, k in zip(idx, src, st):
                if s != 1:
                    o += i * k
            els.append(self.els[o])
        return Tensor(shape, els)

    def expand(self, *shape):
        if len(shape) == 1 and isinstance(shape[0], (tuple, list)):
            shape = tuple(shape[0])
        off = len(shape) - len(self.shape)
        shape = tuple(self.shape[i - off] if (s == -1) else s for i, s in enumerate(shape))
        return self.expand_to(shape)

    def add(self, o):
        return self._arith(o, lambda a, b: s_add(a, b))

    def sub(self, o):
        return self._arith(o, lambda a, b: s_sub(a, b))

    def rsub(self, o):
        return self.zipw(o, lambda a, b: s_sub(b, a))

    def mul(self, o):
        return self._arith(o, lambda a, b: s_mul(a, b))

    def div(self, o):
        return self.zipw(o, lambda a, b: _safe_div(a, b))

    def rdiv(self, o):
        return self.zipw(o, lambda a, b: _safe_div(b, a))

    def floordiv(self, o):
        return self.zipw(o, lambda a, b: s_floordiv(a, b))

    def mod(self, o):
        return self.zipw(o, lambda a, b: s_mod(a, b))

    def pow(self, o):
        return self.zipw(o, lambda a, b: s_pow(a, b))

    def rpow(self, o):
        return self.zipw(o, lambda a, b: s_pow(b, a))

    def neg(self):
        return self.map(s_neg)

    def abs(self):
        return self.map(s_abs)

    def floor(self):
        return self.map(lambda a: to_real(s_floor(a)) if is_sym(a) else float(math.floor(a)))

    def ceil(self):
        return self.map(lambda a: to_real(s_ceil(a)) if is_sym(a) else float(math.ceil(a)))

    def round(self):
        return self.map(lambda a: to_real(s_round(a)) if is_sym(a) else float(round(a)))

    def relu(self):
        return self.map(lambda a: s_max(a, 0.0 if not isinstance(a, int) else 0))

    def clamp(self, min=None, max=None):
        t = self
        if min is not None:
            t = t.zipw(min, lambda a, b: s_max(a, b))
        if max is not None:
            t = t.zipw(max, lambda a, b: s_min(a, b))
        return t

    clip = clamp

    def maximum(self, o):
        return self.zipw(o, lambda a, b: s_max(a, b))

    def minimum(self, o):
        return self.zipw(o, lambda a, b: s_min(a, b))

    def cmp(self, op, o):
        return self.zipw(o, lambda a, b: s_cmp(op, a, b))

    def eq(self, o):
        return self.cmp('==', o)

    def ne(self, o):
        return self.cmp('!=', o)

    def gt(self, o):
        return self.cmp('>', o)

    def ge(self, o):
        return self.cmp('>=', o)

    def lt(self, o):
        return self.cmp('<', o)

    def le(self, o):
        return self.cmp('<=', o)

    def repeat_interleave(self, repeats, dim=None):
        from .torchlib import _repeat_interleave
        return _repeat_interleave(self, repeats, dim)

    def tile(self, *dims):
        if len(dims) == 1 and isinstance(dims[0], (tuple, list)):
            dims = tuple(dims[0])
        return self.repeat(*dims)

    def outer(self, o):
        return Tensor((self.shape[0], o.shape[0]), [s_mul(x, y) for x in self.els for y in o.els])

    def sign(self):
        return self.map(lambda a: s_ite(s_cmp('>', a, 0), 1.0, s_ite(s_cmp('<', a, 0), -1.0, 0.0)))

    def square(self):
        return self.mul(self)

    def cumsum(self, dim=0):
        from .torchlib import along_dim, _cumsum
        return along_dim(self, dim, _cumsum)

    def isclose(self, o, rtol=1e-05, atol=1e-08, equal_nan=False):
        return self.zipw(o, lambda a, b: s_cmp('<=', s_abs(s_sub(a, b)), s_add(atol, s_mul(rtol, s_abs(b)))))

    def expand_as(self, o):
        return self.expand_to(o.shape)

    def type_as(self, o):
        return self

    def logical_or(self, o):
        return self.zipw(o, lambda a, b: s_or(as_bool(a), as_bool(b)))

    def logical_and(self, o):
        return self.zipw(o, lambda a, b: s_and(as_bool(a), as_bool(b)))

    def logical_not(self):
        return self.map(lambda a: s_not(as_bool(a)))

    def where(self, cond, other):
        """torch.where(cond, self, other)"""
        t = cond.zipw(self, lambda c, a: (c, a))
        return t.zipw(other, lambda ca, b: s_ite(as_bool(ca[0]), ca[1], b))

    # ---------------------------------------------------------------- in-place
    def copy_(self, o):
        o = o if isinstance(o, Tensor) else Tensor.from_nested(o)
        self.els = list(o.expand_to(self.shape).els)
        return self

    def fill_(self, v):
        if isinstance(v, Tensor):
            v = v.item()
        self.els = [v] * len(self.els)
        return self

    def zero_(self):
        return self.fill_(0.0)

    def masked_fill_(self, mask, v):
        m = mask.expand_to(self.shape)
        if isinstance(v, Tensor):
            v = v.item()
        self.els = [s_ite(as_bool(c), v, a) for a, c in zip(self.els, m.els)]
        return self

    def masked_fill(self, mask, v):
        return self.clone().masked_fill_(mask, v)

    def add_(self, o):
        self.els = self.add(o).expand_to(self.shape).els
        return self

    def mul_(self, o):
        self.els = self.mul(o).expand_to(self.shape).els
        return self

    def sub_(self, o):
        self.els = self.sub(o).expand_to(self.shape).els
        return self

    def div_(self, o):
        self.els = self.div(o).expand_to(self.shape).els
        return self

    def clamp_(self, min=None, max=None):
        self.els = self.clamp(min, max).els
        return self

    # ---------------------------------------------------------------- shape
    def _norm_dim(self, d, extra=0):
        n = len(self.shape) + extra
        if d < 0:
            d += n
        if not (0 <= d < n):
            raise IndexError(f'dimension {d} out of range')
        return d

    def view(self, *shape):
        if len(shape) == 1 and isinstance(shape[0], (tuple, list)):
            shape = tuple(shape[0])
        shape = [concretize_int(s) for s in shape]
        if -1 in shape:
            known = _prod([s for s in shape if s != -1])
            i = shape.index(-1)
            shape[i] = len(self.els) // known if known else 0
        if _prod(shape) != len(self.els):
            raise RuntimeError(f'view: shape {shape} invalid for {len(self.els)} elements')
        return Tensor(shape, self.els)

    reshape = view

    def flatten(self, start_dim=0, end_dim=-1):
        if not self.shape:
            return Tensor((1,), self.els)
        s = self._norm_dim(start_dim)
        e = self._norm_dim(end_dim)
        shape = self.shape[:s] + (_prod(self.shape[s:e + 1]),) + self.shape[e + 1:]
        return Tensor(shape, self.els)

    def unsqueeze(self, d):
        d = self._norm_dim(d, 1)
        return Tensor(self.shape[:d] + (1,) + self.shape[d:], self.els)

    def squeeze(self, d=None):
        if d is None:
            return Tensor(tuple(s for s in self.shape if s != 1), self.els)
        d = self._norm_dim(d)
        if self.shape[d] != 1:
            return Tensor(self.shape, self.els)
        return Tensor(self.shape[:d] + self.shape[d + 1:], self.els)

    def permute(self, *dims):
        if len(dims) == 1 and isinstance(dims[0], (tuple, list)):
            dims = tuple(dims[0])
        dims = [self._norm_dim(d) for d in dims]
        shape = tuple(self.shape[d] for d in dims)
        st = _strides(self.shape)
        els = []
        for idx in itertools.product(*[range(s) for s in shape]):
            o = sum(i * st[d] for i, d in zip(idx, dims))
            els.append(self.els[o])
        return Tensor(shape, els)

    def transpose(self, a, b):
        a, b = self._norm_dim(a), self._norm_dim(b)
        dims = list(range(len(self.shape)))
        dims[a], dims[b] = dims[b], dims[a]
        return self.permute(*dims)

    def t(self):
        return self.transpose(0, 1) if len(self.shape) == 2 else self

    def flip(self, *dims):
        if len(dims) == 1 and isinstance(dims[0], (tuple, list)):
            dims = tuple(dims[0])
        dims = [self._norm_dim(d) for d in dims]
        st = _strides(self.shape)
        els = []
        for idx in itertools.product(*[range(s) for s in self.shape]):
            o = sum(((self.shape[k] - 1 - i) if k in dims else i) * st[k] for k, i in enumerate(idx))
            els.append(self.els[o])
        return Tensor(self.shape, els)

    def triu(self, diagonal=0):
        if len(self.shape) != 2:
            raise Unsupported('triu of a non-matrix')
        R, C = self.shape
        return Tensor(self.shape, [self.els[r * C + c] if c - r >= diagonal else _zero_like(self.els[r * C + c])
                                   for r in range(R) for c in range(C)])

    def tril(self, diagonal=0):
        if len(self.shape) != 2:
            raise Unsupported('tril of a non-matrix')
        R, C = self.shape
        return Tensor(self.shape, [self.els[r * C + c] if c - r <= diagonal else _zero_like(self.els[r * C + c])
                                   for r in range(R) for c in range(C)])

    def repeat(self, *reps):
        if len(reps) == 1 and isinstance(reps[0], (tuple, list)):
            reps = tuple(reps[0])
        t = self
        off = len(reps) - len(t.shape)
        t = Tensor((1,) * off + t.shape, t.els)
        for d, r in enumerate(reps):
            t = cat([t] * r, d)
        return t

    # ---------------------------------------------------------------- reductions
    def _reduce(self, f, init, dim=None, keepdim=False):
        if dim is None:
            acc = init
            first = True
            for d in self.els:
                acc = d if (first and init is None) else f(acc, d)
                first = False
            return Tensor((), [acc])
        if isinstance(dim, (tuple, list)):
            t = self
            for d in sorted([self._norm_dim(x) for x in dim], reverse=True):
                t = t._reduce(f, init, d, keepdim)
            return t
        dim = self._norm_dim(dim)
        outer = self.shape[:dim]
        n = self.shape[dim]
        inner = self.shape[dim + 1:]
        I = _prod(inner)
        els = []
        for o in range(_prod(outer)):
            for i in range(I):
                acc = init
                for k in range(n):
                    d = self.els[(o * n + k) * I + i]
                    acc = d if (k == 0 and init is None) else f(acc, d)
                els.append(acc)
        shape = outer + ((1,) if keepdim else ()) + inner
        return Tensor(shape, els)

    def sum(self, dim=None, keepdim=False):
        return self._reduce(lambda a, b: s_add(a, b), 0, dim, keepdim)

    def mean(self, dim=None, keepdim=False):
        n = len(self.els) if dim is None else _prod([self.shape[self._norm_dim(d)] for d in (dim if isinstance(dim, (tuple, list)) else (dim,))])
        return self.sum(dim, keepdim).map(lambda a: s_div(a, n))

    def prod(self, dim=None, keepdim=False):
        return self._reduce(lambda a, b: s_mul(a, b), 1, dim, keepdim)

    def max(self, dim=None, keepdim=False):
        if isinstance(dim, Tensor):
            return self.maximum(dim)
        if len(self.els) == 0:
            raise RuntimeError('max of an empty tensor')
        v = self._reduce(lambda a, b: s_max(a, b), None, dim, keepdim)
        if dim is None:
            return v
        return MaxResult(v, self.argmax(dim, keepdim))

    def min(self, dim=None, keepdim=False):
        if isinstance(dim, Tensor):
            return self.minimum(dim)
        if len(self.els) == 0:
            raise RuntimeError('min of an empty tensor')
        v = self._reduce(lambda a, b: s_min(a, b), None, dim, keepdim)
        if dim is None:
            return v
        return MaxResult(v, self.neg().argmax(dim, keepdim))

    def amax(self, dim=None, keepdim=False):
        return self._reduce(lambda a, b: s_max(a, b), None, dim, keepdim)

    def any(self, dim=None):
        return self._reduce(lambda a, b: s_or(as_bool(a), as_bool(b)), False, dim)

    def all(self, dim=None):
        return self._reduce(lambda a, b: s_and(as_bool(a), as_bool(b)), True, dim)

    def argmax(self, dim=None, keepdim=False):
        """index of the first maximal element (torch returns the first for ties on CPU)"""
        if dim is None:
            return Tensor((), [_argmax_list(self.els)])
        dim = self._norm_dim(dim)
        outer = self.shape[:dim]
        n = self.shape[dim]
        inner = self.shape[dim + 1:]
        I = _prod(inner)
        els = []
        for o in range(_prod(outer)):
            for i in range(I):
                els.append(_argmax_list([self.els[(o * n + k) * I + i] for k in range(n)]))
        return Tensor(outer + ((1,) if keepdim else ()) + inner, els)

    def argmin(self, dim=None, keepdim=False):
        return self.neg().argmax(dim, keepdim)

    def nonzero(self, as_tuple=False):
        """data-dependent shape: every element is concretised (forks per feasible pattern)"""
        if as_tuple:
            t = self.nonzero()
            n = t.shape[0]
            return tuple(Tensor((n,), [t.els[r * len(self.shape) + d] for r in range(n)]) for d in range(len(self.shape)))
        idxs = []
        for idx, d in zip(itertools.product(*[range(s) for s in self.shape]), self.els):
            if truth(s_cmp('!=', to_num(d), 0) if is_sym(d) else d != 0):
                idxs.append(list(idx))
        return Tensor((len(idxs), len(self.shape)), [x for i in idxs for x in i])

    def matmul(self, o):
        if len(self.shape) == 2 and len(o.shape) == 1:
            R, C = self.shape
            if o.shape != (C,):
                raise RuntimeError('matmul shape mismatch')
            return Tensor((R,), [_dot([self.els[r * C + c] for c in range(C)], o.els) for r in range(R)])
        if len(self.shape) == 1 and len(o.shape) == 1:
            return Tensor((), [_dot(self.els, o.els)])
        if len(self.shape) == 2 and len(o.shape) == 2:
            R, C = self.shape
            C2, K = o.shape
            if C != C2:
                raise RuntimeError('matmul shape mismatch')
            return Tensor((R, K), [_dot([self.els[r * C + c] for c in range(C)], [o.els[c * K + k] for c in range(C)])
                                   for r in range(R) for k in range(K)])
        if len(self.shape) == 1 and len(o.shape) == 2:
            return o.transpose(0, 1).matmul(self)
        raise Unsupported(f'matmul {self.shape} x {o.shape}')

    def dot(self, o):
        if len(self.shape) != 1 or len(o.shape) != 1:
            raise RuntimeError(f'1D tensors expected, but got {len(self.shape)}D and {len(o.shape)}D tensors')
        if self.shape != o.shape:
            raise RuntimeError('inconsistent tensor size in dot')
        return Tensor((), [_dot(self.els, o.els)])

    # ---------------------------------------------------------------- indexing
    def _index_int(self, i):
        n = _prod(self.shape[1:])
        return Tensor(self.shape[1:], self.els[i * n:(i + 1) * n])

    def _select(self, dim, positions):
        """generic gather of `positions` along `dim` (keeps the dimension)"""
        outer = self.shape[:dim]
        n = self.shape[dim]
        inner = self.shape[dim + 1:]
        I = _prod(inner)
        els = []
        for o in range(_prod(outer)):
            for p in positions:
                base = (o * n + p) * I
                els.extend(self.els[base:base + I])
        return Tensor(outer + (len(positions),) + inner, els)

    def _norm_key(self, key):
        if not isinstance(key, tuple):
            key = (key,)
        # expand Ellipsis
        if any(k is Ellipsis for k in key):
            i = [k is Ellipsis for k in key].index(True)
            nreal = sum(1 for k in key if k is not None and k is not Ellipsis)
            key = key[:i] + (slice(None),) * (len(self.shape) - nreal) + key[i + 1:]
        return key

    def __getitem__(self, key):
        key = self._norm_key(key)
        key = tuple((k.item() if (isinstance(k, Tensor) and k.shape == () and not _is_boolish(k)) else k) for k in key)
        key = tuple((concretize_int(k) if is_sym(k) else k) for k in key)
        if all((isinstance(k, int) and not isinstance(k, bool)) or k is None or
               (isinstance(k, slice) and all(x is None or (isinstance(x, int) and not isinstance(x, bool)) for x in (k.start, k.stop, k.step)))
               for k in key):
            offs = Tensor(self.shape, list(range(_prod(self.shape))))._getitem_copy(key)
            return Tensor._view(self, offs.shape, offs._els)
        return self._getitem_copy(key)

    def _getitem_copy(self, key):
        t = self
        dim = 0
        for k in key:
            if k is None:
                t = t.unsqueeze(dim)
                dim += 1
                continue
            if dim >= len(t.shape):
                raise IndexError('too many indices for tensor')
            if isinstance(k, Tensor) and k.shape == () and not _is_boolish(k):
                k = k.item()
            if is_sym(k):
                k = concretize_int(k)
            if isinstance(k, bool):
                raise Unsupported('boolean scalar index')
            if isinstance(k, int):
                n = t.shape[dim]
                if k < 0:
                    k += n
                if not (0 <= k < n):
                    raise IndexError(f'index {k} out of range for dimension of size {n}')
                t = t._select(dim, [k])
                t = Tensor(t.shape[:dim] + t.shape[dim + 1:], t.els)
            elif isinstance(k, slice):
                lo, hi, st = k.start, k.stop, k.step
                lo = None if lo is None else concretize_int(lo.item() if isinstance(lo, Tensor) else lo)
                hi = None if hi is None else concretize_int(hi.item() if isinstance(hi, Tensor) else hi)
                st = None if st is None else concretize_int(st)
                t = t._select(dim, list(range(t.shape[dim]))[slice(lo, hi, st)])
                dim += 1
            elif isinstance(k, Tensor) and _is_boolish(k):
                if len(k.shape) != 1:
                    if k.shape == t.shape and dim == 0 and len(key) == 1:
                        keep = [i for i, m in enumerate(k.els) if truth(as_bool(m))]
                        return Tensor((len(keep),), [t.els[i] for i in keep])
                    raise Unsupported('multi-dimensional boolean mask index')
                if k.shape[0] != t.shape[dim]:
                    raise IndexError(f'boolean mask of size {k.shape[0]} on a dimension of size {t.shape[dim]}')
                keep = [i for i, m in enumerate(k.els) if truth(as_bool(m))]   # data-dependent shape: concretised
                t = t._select(dim, keep)
                dim += 1
            elif isinstance(k, (Tensor, list)):
                if isinstance(k, list):
                    k = Tensor.from_nested(k)
                if len(k.shape) != 1:
                    raise Unsupported('multi-dimensional integer index')
                pos = [concretize_int(x) for x in k.els]
                n = t.shape[dim]
                pos = [p + n if p < 0 else p for p in pos]
                for p in pos:
                    if not (0 <= p < n):
                        raise IndexError('index out of range')
                t = t._select(dim, pos)
                dim += 1
            else:
                raise Unsupported(f'index of type {type(k).__name__}')
        return t

    def __setitem__(self, key, value):
        key = self._norm_key(key)
        # compute the flat offsets addressed by the key by indexing a tensor of offsets
        offs = Tensor(self.shape, list(range(len(self.els))))._getitem_copy(self._norm_key(key))
        if isinstance(value, Tensor):
            while len(value.shape) > len(offs.shape) and value.shape and value.shape[0] == 1:
                value = Tensor(value.shape[1:], value.els)             # torch drops leading singleton dimensions of the value
            try:
                v = value.expand_to(offs.shape).els if value.shape != offs.shape else value.els
            except Unsupported:
                raise RuntimeError(f'shape mismatch: value tensor of shape {value.shape} cannot be broadcast to indexing result of shape {offs.shape}')
        else:
            v = [value] * len(offs.els)
        cur = list(self.els)
        for o, x in zip(offs.els, v):
            cur[o] = x
        self.els = cur

    # ---------------------------------------------------------------- python protocol used by host-side helpers
    def __int__(self):
        return concretize_int(self.item())

    def __float__(self):
        v = self.item()
        if is_sym(v):
            raise Unsupported('float() of a symbolic tensor on the host side')
        return float(v)

    def __bool__(self):
        return truth(self)


class MaxResult(tuple):
    """result of max/min with a dim: (values, indices) with .values/.indices"""
    def __new__(cls, values, indices):
        o = super().__new__(cls, (values, indices))
        return o
    values = property(lambda s: s[0])
    indices = property(lambda s: s[1])


def _is_boolish(t):
    return len(t.els) > 0 and all(isinstance(e, bool) or (is_sym(e) and z3.is_bool(e)) for e in t.els)


def _zero_like(a):
    if isinstance(a, int) and not isinstance(a, bool):
        return 0
    if is_sym(a) and z3.is_int(a):
        return 0
    return 0.0


def _dot(xs, ys):
    acc = 0.0
    for a, b in zip(xs, ys):
        if (not is_sym(a) and a == 0) or (not is_sym(b) and b == 0):
            continue
        acc = s_add(acc, s_mul(to_real(a), to_real(b)))
    return acc


def _softmax_logits(p, xs):
    """if xs is exactly the output vector of one softmax call of this path, its logits (same order, same ties)"""
    org = getattr(p, 'softmax_origin', None)
    if not org or not all(is_sym(x) for x in xs):
        return None
    hits = [org.get(x.get_id()) for x in xs]
    if any(h is None for h in hits) or any(h[0] != hits[0][0] or h[1] != i for i, h in enumerate(hits)) or len(hits[0][2]) != len(xs):
        return None
    return list(hits[0][2])


def _argmax_list(xs):
    if not any(is_sym(x) for x in xs):
        best = 0
        for i, x in enumerate(xs):
            if x > xs[best]:
                best = i
        return best
    # first index of the maximum
    p = PATH()
    if p is not None and not getattr(p, 'concrete', False) and p.lits and 1 < len(xs) <= 16:
        # the case split made so far may already settle the winner: then the index is concrete on this path
        ys = _softmax_logits(p, xs) or [to_real(x) if is_sym(x) else z3.RealVal(fractions.Fraction(x)) for x in xs]
        for i in range(len(ys)):
            c = z3.And(*([ys[i] > ys[j] for j in range(i)] + [ys[i] >= ys[j] for j in range(i + 1, len(ys))]))
            if p.entailed(c):
                return i
    idx = 0
    best = xs[0]
    for i in range(1, len(xs)):
        c = s_cmp('>', xs[i], best)
        idx = s_ite(c, i, idx)
        best = s_ite(c, xs[i], best)
    return idx


def _wrap(v, bits):
    """two's-complement wrap of an integer value to `bits` bits (identity on values that are not integers)"""
    half, full = 2 ** (bits - 1), 2 ** bits
    if is_sym(v):
        if not z3.is_int(v):
            return v
        return s_sub(s_mod(s_add(v, half), full), half)
    if isinstance(v, bool) or not isinstance(v, int):
        if isinstance(v, float) and v == int(v):
            return float(((int(v) + half) % full) - half)
        return v
    return ((v + half) % full) - half


def s_trunc(a):
    if not is_sym(a):
        return int(a)
    if z3.is_int(a):
        return a
    if z3.is_bool(a):
        return to_num(a)
    return z3.If(a >= 0, z3.ToInt(a), -z3.ToInt(-a))


def _safe_div(a, b):
    from .oblig import safety_nonzero
    safety_nonzero(b, 'tensor division')
    if is_sym(a) or is_sym(b):
        return s_div(to_real(a) if not is_sym(a) and not isinstance(a, float) else a, b)
    if b == 0:                       # torch semantics on concrete values: inf / nan, no exception
        a = float(a)
        return float('nan') if (a == 0 or a != a) else math.copysign(float('inf'), a) * (math.copysign(1.0, b) if isinstance(b, float) else 1.0)
    return a / b


def broadcast_shape(a, b):
    n = max(len(a), len(b))
    a2 = (1,) * (n - len(a)) + tuple(a)
    b2 = (1,) * (n - len(b)) + tuple(b)
    out = []
    for x, y in zip(a2, b2):
        if x == y or y == 1:
            out.append(x)
        elif x == 1:
            out.append(y)
        else:
            raise RuntimeError(f'shapes {a} and {b} are not broadcastable')
    return tuple(out)


def cat(ts, dim=0):
    ts = [t for t in ts]
    if not ts:
        raise RuntimeError('cat of an empty list')
    ts = [t for t in ts if not (len(t.shape) == 1 and t.shape[0] == 0)] or ts[:1]
    d = ts[0]._norm_dim(dim)
    base = ts[0].shape
    for t in ts:
        if len(t.shape) != len(base) or t.shape[:d] != base[:d] or t.shape[d + 1:] != base[d + 1:]:
            raise RuntimeError(f'cat: incompatible shapes {base} and {t.shape}')
    outer = _prod(base[:d])
    els = []
    for o in range(outer):
        for t in ts:
            n = _prod(t.shape[d:])
            els.extend(t.els[o * n:(o + 1) * n])
    return Tensor(base[:d] + (sum(t.shape[d] for t in ts),) + base[d + 1:], els)


def stack(ts, dim=0):
    ts = list(ts)
    if not ts:
        raise RuntimeError('stack of an empty list')
    ts = [t if isinstance(t, Tensor) else Tensor((), [t]) for t in ts]
    return cat([t.unsqueeze(dim) for t in ts], dim)
