"""Scalar value model: python numbers (concrete) and z3 terms (symbolic); path exploration state.

Assumption A-real: python floats and tensor elements are modelled as mathematical reals,
python ints as mathematical integers (exact in CPython).
"""
import math
import fractions
import z3


class Unsupported(Exception):
    """construct outside the supported subset -> obligation undecided (exit 2), never a verdict"""


class BudgetExhausted(Exception):
    """wall-clock budget of one harness configuration used up -> the configuration is undecided (exit 2), never a verdict"""


def _vars_of(t, limit=64):
    """ids of the uninterpreted constants of a term (bounded walk)"""
    out = set()
    todo = [t]
    seen = set()
    while todo and len(seen) < 4000:
        x = todo.pop()
        i = x.get_id()
        if i in seen:
            continue
        seen.add(i)
        if z3.is_app(x):
            if x.num_args() == 0:
                if x.decl().kind() == z3.Z3_OP_UNINTERPRETED:
                    out.add(i)
                    if len(out) > limit:
                        return out
            else:
                todo.extend(x.children())
    return out


class Infeasible(Exception):
    """current path condition unsatisfiable"""


class StopPath(Exception):
    """path deliberately cut (loop-invariant preservation branch, assume(False))"""


# ------------------------------------------------------------------------------------------
# path exploration by re-execution with a recorded decision prefix
# ------------------------------------------------------------------------------------------
class Path:
    def __init__(self, decisions, timeout_ms=10000):
        self.decisions = list(decisions)
        self.idx = 0
        self.pc = []
        self.solver = z3.Solver()
        self.solver.set('timeout', timeout_ms)
        self.alts = []
        self.side = []          # instantiated library axioms (true for all arguments)
        self.nfresh = 0
        self.lits = {}          # simplified condition id -> (decision, condition): literals decided on this path
        self.known_cache = {}
        self.concrete = False   # concrete-execution mode (cross-check): no solver at all

    def _feasible(self, c):
        self.solver.push()
        self.solver.add(c)
        r = self.solver.check()
        self.solver.pop()
        return r != z3.unsat     # unknown counts as feasible (sound for proofs: more paths)

    def branch(self, cond):
        cond = z3.simplify(cond)
        if z3.is_true(cond):
            return True
        if z3.is_false(cond):
            return False
        if self.idx < len(self.decisions):
            d = self.decisions[self.idx]
        else:
            t = self._feasible(cond)
            f = self._feasible(z3.Not(cond))
            if t and f:
                self.alts.append(self.decisions[:self.idx] + [False])
                d = True
            elif t:
                d = True
            elif f:
                d = False
            else:
                raise Infeasible()
            self.decisions.append(d)
        self.idx += 1
        c = cond if d else z3.Not(cond)
        self.pc.append(c)
        self.solver.add(c)
        self._record(cond, d)
        return d

    def _record(self, cond, d):
        self.lits[cond.get_id()] = (d, cond)
        if not z3.is_app(cond):
            return
        k = cond.decl().kind()
        if k == z3.Z3_OP_NOT:
            self._record(cond.arg(0), not d)
        elif (k == z3.Z3_OP_AND and d) or (k == z3.Z3_OP_OR and not d):
            for ch in cond.children():
                self._record(ch, d)

    def known(self, cond, semantic=False):
        """truth value of a condition that was already decided on this path (syntactic, after simplification), else None"""
        if not self.lits:
            return None
        c = z3.simplify(cond)
        if z3.is_true(c):
            return True
        if z3.is_false(c):
            return False
        hit = self.lits.get(c.get_id())
        if hit is not None:
            return hit[0]
        if z3.is_not(c):
            hit = self.lits.get(c.arg(0).get_id())
            if hit is not None:
                return not hit[0]
        if not semantic:
            return None
        # semantic fall-back: is the condition settled by the path condition?  (cached; only mask-like booleans get here)
        i = c.get_id()
        if i in self.known_cache and (self.known_cache[i][0] is not None or self.known_cache[i][2] == len(self.pc)):
            return self.known_cache[i][0]
        res = None
        if len(self.known_cache) < 4000:
            if not self._feasible(z3.Not(c)):
                res = True
            elif not self._feasible(c):
                res = False
        self.known_cache[i] = (res, c, len(self.pc))
        if res is not None:
            self._record(c, res)
        return res

    def entailed(self, cond):
        """is cond implied by the conditions already decided on this path that talk about the same variables?  A small separate
        query over recorded literals only (cheap and repeatable; a subset of the path condition, so a yes is sound; unknown = no)"""
        c = z3.simplify(cond)
        if z3.is_true(c):
            return True
        if z3.is_false(c):
            return False
        cache = self.__dict__.setdefault('entail_cache', {})
        k = (c.get_id(), len(self.pc))
        if k not in cache:
            vs = _vars_of(c)
            hyps = []
            small = self.__dict__.setdefault('small_pc', [])      # (index in pc, variables) of the small conjuncts of the path condition
            start = small[-1][0] + 1 if small else 0
            for i in range(start, len(self.pc)):
                parts = [self.pc[i]]
                flat = []
                while parts:
                    t = parts.pop()
                    if z3.is_app(t) and t.decl().kind() == z3.Z3_OP_AND and len(flat) + len(parts) < 400:
                        parts.extend(t.children())
                    else:
                        flat.append(t)
                for t in flat:
                    tv = _vars_of(t, 8)
                    small.append((i, tv if 0 < len(tv) <= 4 else None, t))
            for i, tv, t in small:
                if tv is not None and tv & vs:
                    hyps.append(t)
            s = z3.Solver()
            s.set('timeout', 2000)
            s.add(*hyps[:200])
            s.add(z3.Not(c))
            cache[k] = (s.check() == z3.unsat, c)
        return cache[k][0]

    def few_values(self, iv, k=16):
        """has the integer term at most k feasible values on this path?  (enumeration by solver queries, no forking)"""
        self.solver.push()
        try:
            for _ in range(k + 1):
                if self.solver.check() != z3.sat:
                    return self.solver.check() == z3.unsat
                cv = self.solver.model().eval(iv, model_completion=True)
                if not z3.is_int_value(cv):
                    return False
                self.solver.add(iv != cv)
            return False
        finally:
            self.solver.pop()

    def branch_value(self, iv, limit=64):
        """fork one path per feasible value of the integer term `iv`; the chosen values are recorded in the
        decision list so that re-execution is deterministic"""
        for _ in range(limit):
            if self.idx < len(self.decisions):
                _, c, taken = self.decisions[self.idx]
            else:
                r = self.solver.check()
                if r == z3.unsat:
                    raise Infeasible()
                if r != z3.sat:
                    raise Unsupported('solver could not enumerate the values of a symbolic integer')
                cv = self.solver.model().eval(iv, model_completion=True)
                if not z3.is_int_value(cv):
                    raise Unsupported('non-numeral model value')
                c = cv.as_long()
                if self._feasible(iv != c):
                    self.alts.append(self.decisions[:self.idx] + [('c', c, False)])
                taken = True
                self.decisions.append(('c', c, True))
            self.idx += 1
            cond = (iv == c) if taken else (iv != c)
            self.pc.append(cond)
            self.solver.add(cond)
            if taken:
                return c
        raise Unsupported('too many values for a symbolic integer used as a concrete size')

    def choose(self, n):
        """non-deterministic n-way split that does not depend on the solver"""
        if self.idx < len(self.decisions):
            d = self.decisions[self.idx]
        else:
            for k in range(1, n):
                self.alts.append(self.decisions[:self.idx] + [k])
            d = 0
            self.decisions.append(d)
        self.idx += 1
        return d

    def assume(self, f):
        if isinstance(f, bool):
            if not f:
                raise StopPath()
            return
        f = z3.simplify(f)
        if z3.is_true(f):
            return
        if z3.is_false(f):
            raise StopPath()
        self.pc.append(f)
        self.solver.add(f)

    def add_side(self, f):
        """library axiom instance: valid for all arguments, so assuming it is sound"""
        self.pc.append(f)
        self.solver.add(f)

    def fresh(self, prefix, sort):
        self.nfresh += 1
        return z3.Const(f'{prefix}!{self.nfresh}', sort)


class Ctx:
    path = None


def PATH():
    return Ctx.path


# ------------------------------------------------------------------------------------------
# scalars
# ------------------------------------------------------------------------------------------
def is_sym(v):
    return isinstance(v, z3.ExprRef)


def is_num(v):
    return isinstance(v, (int, float, fractions.Fraction)) or is_sym(v)


def rv(x):
    """python number -> z3 numeral of the right sort"""
    if isinstance(x, bool):
        return z3.BoolVal(x)
    if isinstance(x, int):
        return z3.IntVal(x)
    if isinstance(x, float):
        if x != x or x in (float('inf'), float('-inf')):
            raise Unsupported('non-finite float constant')
        return z3.RealVal(fractions.Fraction(x).limit_denominator(10 ** 12) if abs(x) < 1e12 else fractions.Fraction(x))
    if isinstance(x, fractions.Fraction):
        return z3.RealVal(x)
    raise Unsupported(f'cannot lift {type(x).__name__} to a z3 term')


def _known(c, semantic=False):
    p = Ctx.path
    if p is None or not p.lits:
        return None
    return p.known(c, semantic)


def to_real(v):
    if is_sym(v):
        if z3.is_bool(v):
            k = _known(v, True)        # binary masks: settle them semantically once their bits were decided
            if k is not None:
                return 1.0 if k else 0.0
            return z3.If(v, z3.RealVal(1), z3.RealVal(0))
        if z3.is_int(v):
            return z3.ToReal(v)
        return v
    if isinstance(v, bool):
        return 1.0 if v else 0.0
    return v


def to_num(v):
    """bool-sorted terms become 0/1 integers (python: True == 1)"""
    if is_sym(v) and z3.is_bool(v):
        return z3.If(v, z3.IntVal(1), z3.IntVal(0))
    if isinstance(v, bool):
        return int(v)
    return v


def _coerce(a, b):
    """bring two scalars (at least one symbolic) to a common z3 sort"""
    a, b = to_num(a), to_num(b)
    if not is_sym(a):
        a = rv(a)
    if not is_sym(b):
        b = rv(b)
    if z3.is_int(a) and z3.is_real(b):
        a = z3.RealVal(a.as_long()) if z3.is_int_value(a) else z3.ToReal(a)
    elif z3.is_real(a) and z3.is_int(b):
        b = z3.RealVal(b.as_long()) if z3.is_int_value(b) else z3.ToReal(b)
    return a, b


def s_is_integer(x):
    """integrality predicate, pushed through if-then-else / ToReal so that z3 sees it structurally"""
    if not is_sym(x):
        return float(x) == int(x)
    if z3.is_int(x) or z3.is_bool(x):
        return True
    if z3.is_rational_value(x):
        return x.denominator_as_long() == 1
    k = x.decl().kind()
    ch = x.children()
    if k == z3.Z3_OP_TO_REAL:
        return True
    if k == z3.Z3_OP_ITE:
        return s_and(s_or(s_not(ch[0]), s_is_integer(ch[1])), s_or(ch[0], s_is_integer(ch[2])))
    if k in (z3.Z3_OP_ADD, z3.Z3_OP_SUB, z3.Z3_OP_MUL, z3.Z3_OP_UMINUS):
        parts = [s_is_integer(c) for c in ch]
        if all(p is True for p in parts):
            return True
    return z3.IsInt(x)


def _isint(v):
    return (isinstance(v, int) and not isinstance(v, bool)) or (is_sym(v) and z3.is_int(v))


def s_add(a, b):
    if not (is_sym(a) or is_sym(b)):
        return a + b
    if not is_sym(b) and b == 0 and not isinstance(b, float):
        return to_num(a)
    if not is_sym(a) and a == 0 and not isinstance(a, float):
        return to_num(b)
    a, b = _coerce(a, b)
    return a + b


def s_sub(a, b):
    if not (is_sym(a) or is_sym(b)):
        return a - b
    a, b = _coerce(a, b)
    return a - b


def s_neg(a):
    if not is_sym(a):
        return -a
    return -to_num(a)


def _indicator(t):
    """c if t is the 0/1 indicator If(c, 1, 0) of a condition, else None"""
    if is_sym(t) and z3.is_app(t) and t.decl().kind() == z3.Z3_OP_ITE:
        c, x, y = t.children()
        if (z3.is_rational_value(x) or z3.is_int_value(x)) and (z3.is_rational_value(y) or z3.is_int_value(y)):
            xv = x.as_long() if z3.is_int_value(x) else x.as_fraction()
            yv = y.as_long() if z3.is_int_value(y) else y.as_fraction()
            if xv == 1 and yv == 0:
                return c
            if xv == 0 and yv == 1:
                return z3.Not(c)
    return None


def s_mul(a, b):
    if not (is_sym(a) or is_sym(b)):
        return a * b
    ia, ib = _indicator(a), _indicator(b)
    if ia is not None and ib is not None:             # product of two binary masks = mask of the conjunction
        c = z3.And(ia, ib)
        k = _known(c, True)
        if k is not None:
            return 1.0 if k else 0.0
        return z3.If(c, z3.RealVal(1), z3.RealVal(0))
    # keep exact zeros / ones out of the formulas (big win for the mask algebra)
    for x, y in ((a, b), (b, a)):
        if not is_sym(x):
            if x == 0:
                return 0 if (isinstance(x, int) and _isint(y)) else 0.0
            if x == 1 and not isinstance(x, float):
                return to_num(y)
            if x == 1:
                return to_real(y)
    a, b = _coerce(a, b)
    return a * b


def s_div(a, b, safety=None):
    """true division; the caller is responsible for the definedness obligation"""
    if not (is_sym(a) or is_sym(b)):
        return a / b
    a, b = to_real(a), to_real(b)
    if not is_sym(a):
        a = rv(float(a) if not isinstance(a, fractions.Fraction) else a)
    if not is_sym(b):
        b = rv(float(b) if not isinstance(b, fractions.Fraction) else b)
    return a / b


def s_floor(a):
    if not is_sym(a):
        return math.floor(a)
    if z3.is_int(a):
        return a
    return z3.ToInt(to_real(a))         # z3 ToInt = floor


def s_ceil(a):
    if not is_sym(a):
        return math.ceil(a)
    if z3.is_int(a):
        return a
    return -z3.ToInt(-to_real(a))


def s_floordiv(a, b):
    if not (is_sym(a) or is_sym(b)):
        return a // b
    if _isint(a) and _isint(b):
        a, b = _coerce(a, b)
        if z3.is_int_value(b) and b.as_long() > 0:
            return a / b                 # z3 integer division = floor for positive divisors
        q = a / b                        # euclidean: a = q*b + r, 0 <= r < |b|
        return z3.If(b > 0, q, z3.If(a % b == 0, q, q - 1))
    return to_real(s_floor(s_div(a, b)))


def s_mod(a, b):
    if not (is_sym(a) or is_sym(b)):
        return a % b
    if _isint(a) and _isint(b):
        a, b = _coerce(a, b)
        if z3.is_int_value(b) and b.as_long() > 0:
            return a % b
        r = a % b
        return z3.If(b > 0, r, z3.If(r == 0, r, r + b))
    a, b = _coerce(a, b)
    a, b = to_real(a), to_real(b)
    return a - b * z3.ToReal(z3.ToInt(a / b))


def s_pow(a, b):
    if not (is_sym(a) or is_sym(b)):
        return a ** b
    if is_sym(b):
        b2 = z3.simplify(b)
        if z3.is_int_value(b2):
            b = b2.as_long()
        elif z3.is_rational_value(b2) and b2.denominator_as_long() == 1:
            b = b2.numerator_as_long()
        else:
            raise Unsupported('symbolic exponent')
    if isinstance(b, float) and b == int(b):
        b = int(b)
    if not isinstance(b, int):
        raise Unsupported('non-integer exponent')
    if b >= 0:
        r = 1
        for _ in range(b):
            r = s_mul(r, a)
        return r
    return s_div(1, s_pow(a, -b))


def s_abs(a):
    if not is_sym(a):
        return abs(a)
    a = to_num(a)
    return z3.If(a >= 0, a, -a)


def _is_inf(v):
    return isinstance(v, float) and (v == float('inf') or v == float('-inf'))


def s_cmp(op, a, b):
    """op in '<', '<=', '>', '>=', '==', '!='"""
    if (_is_inf(a) and is_sym(b)) or (_is_inf(b) and is_sym(a)):
        # a real-valued term against +-infinity (e.g. `val < float('inf')` in an arg-min scan)
        av = a if _is_inf(a) else 0.0
        bv = b if _is_inf(b) else 0.0
        return {'<': av < bv, '<=': av <= bv, '>': av > bv, '>=': av >= bv, '==': False, '!=': True}[op]
    if not (is_sym(a) or is_sym(b)):
        return {'<': a < b, '<=': a <= b, '>': a > b, '>=': a >= b, '==': a == b, '!=': a != b}[op]
    if op in ('==', '!=') and ((is_sym(a) and z3.is_bool(a)) and (isinstance(b, bool) or (is_sym(b) and z3.is_bool(b)))):
        bb = rv(b) if not is_sym(b) else b
        return a == bb if op == '==' else a != bb
    for x, y, flip in ((a, b, False), (b, a, True)):
        ix = _indicator(x)
        if ix is not None and not is_sym(y) and y in (0, 1):
            o = op if not flip else {'<': '>', '<=': '>=', '>': '<', '>=': '<=', '==': '==', '!=': '!='}[op]
            one = ix if y == 1 else z3.Not(ix)          # x == y
            if o == '==':
                return one
            if o == '!=':
                return z3.Not(one)
            if y == 0:
                return {'>': ix, '>=': z3.BoolVal(True), '<': z3.BoolVal(False), '<=': z3.Not(ix)}[o]
            return {'>': z3.BoolVal(False), '>=': ix, '<': z3.Not(ix), '<=': z3.BoolVal(True)}[o]
    a, b = _coerce(a, b)
    if op == '<':
        return a < b
    if op == '<=':
        return a <= b
    if op == '>':
        return a > b
    if op == '>=':
        return a >= b
    if op == '==':
        return a == b
    return a != b


def s_ite(c, a, b):
    if not is_sym(c):
        return a if c else b
    k = _known(c)
    if k is not None:
        return a if k else b
    if not (is_sym(a) or is_sym(b)):
        if type(a) == type(b) and a == b:
            return a
    if isinstance(a, bool) or isinstance(b, bool) or (is_sym(a) and z3.is_bool(a)) or (is_sym(b) and z3.is_bool(b)):
        a2 = rv(a) if not is_sym(a) else a
        b2 = rv(b) if not is_sym(b) else b
        if z3.is_bool(a2) and z3.is_bool(b2):
            return z3.If(c, a2, b2)
    a, b = _coerce(a, b)
    return z3.If(c, a, b)


def s_min(a, b):
    if not (is_sym(a) or is_sym(b)):
        return min(a, b)
    a, b = _coerce(a, b)
    return z3.If(b < a, b, a)


def s_max(a, b):
    if not (is_sym(a) or is_sym(b)):
        return max(a, b)
    a, b = _coerce(a, b)
    return z3.If(b > a, b, a)


def s_and(*xs):
    out = []
    for x in xs:
        if not is_sym(x):
            if not x:
                return False
            continue
        out.append(as_bool(x))
    if not out:
        return True
    return out[0] if len(out) == 1 else z3.And(*out)


def s_or(*xs):
    out = []
    for x in xs:
        if not is_sym(x):
            if x:
                return True
            continue
        out.append(as_bool(x))
    if not out:
        return False
    return out[0] if len(out) == 1 else z3.Or(*out)


def s_not(x):
    if not is_sym(x):
        return not x
    return z3.Not(as_bool(x))


def s_implies(a, b):
    return s_or(s_not(a), b)


def as_bool(v):
    if is_sym(v):
        if z3.is_bool(v):
            return v
        return v != 0
    return bool(v)


def s_round(a):
    """round-half-to-even (python round(), torch.round): a fresh integer per distinct argument term with the defining axiom
    (|n - a| <= 1/2, ties to even) and the pairwise monotonicity instances against the other roundings on the path.
    No uninterpreted function: keeps the obligations inside (non-linear) arithmetic."""
    if not is_sym(a):
        return round(a)
    if z3.is_int(a):
        return a
    a = to_real(a)
    p = PATH()
    cache = p.__dict__.setdefault('round_cache', {})
    key = a.get_id()
    if key in cache:
        return cache[key][1]
    n = p.fresh('rnd', z3.IntSort())
    d = z3.ToReal(n) - a
    half = z3.RealVal('1/2')
    p.add_side(z3.And(d <= half, d >= -half, z3.Implies(z3.Or(d == half, d == -half), n % 2 == 0)))
    for (a2, n2) in cache.values():
        p.add_side(z3.And(z3.Implies(a <= a2, n <= n2), z3.Implies(a2 <= a, n2 <= n)))
    cache[key] = (a, n)
    return n


def truth(v):
    """python truthiness; forks the path on a symbolic condition"""
    from .tensor import Tensor
    if isinstance(v, Tensor):
        if v.numel() != 1:
            raise Unsupported('truth value of a tensor with more than one element')
        v = v.els[0]
    if is_sym(v):
        return PATH().branch(as_bool(v))
    return bool(v)


def concretize_int(v, lo=None, hi=None, limit=64):
    """fork one path per feasible value of a symbolic integer (used for data-dependent shapes)"""
    if not is_sym(v):
        return int(v)
    v = z3.simplify(v)
    if z3.is_int_value(v):
        return v.as_long()
    if z3.is_rational_value(v):
        if v.denominator_as_long() != 1:
            raise Unsupported('non-integral value used as an integer')
        return v.numerator_as_long()
    p = PATH()
    iv = z3.ToInt(v) if z3.is_real(v) else v
    return p.branch_value(iv, limit)


def model_value(m, t):
    v = m.eval(t, model_completion=True)
    if z3.is_int_value(v):
        return v.as_long()
    if z3.is_rational_value(v):
        return fractions.Fraction(v.numerator_as_long(), v.denominator_as_long())
    if z3.is_true(v):
        return True
    if z3.is_false(v):
        return False
    if z3.is_algebraic_value(v):
        return fractions.Fraction(str(v.approx(20).as_fraction()))
    return str(v)
