"""pyvc - verification-condition generator for the real plinio source.

Reads /repo/plinio/**/*.py with `ast` on every run, executes the functions under contract
symbolically (z3 terms for numbers, concrete structure), records named obligations and
discharges them with z3 / cvc5.  It never imports plinio or torch.  See /verif/DESIGN.md.
"""
