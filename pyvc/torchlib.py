"""Library model: python builtins, math, itertools, copy, typing and the torch / torch.nn / torch.nn.functional /
torch.fx (single-node bookkeeping only) entry points used by the functions under contract.

These are *assumed contracts on dependencies* (DESIGN.md 2.5), written as executable specifications; the cross-check
of every harness compares them with the real libraries on concrete inputs.
"""
import ast
import copy as _copy
import itertools as _it
import math
import fractions
import z3
from .sym import (Unsupported, PATH, is_sym, truth, to_real, to_num, s_add, s_sub, s_mul, s_div, s_abs, s_cmp, s_ite,
                  s_min, s_max, s_and, s_or, s_not, s_floor, s_ceil, s_round, as_bool, concretize_int, s_neg,
                  s_floordiv, s_mod)
from .tensor import Tensor, cat, stack, s_trunc, _prod
from .oblig import safety_nonzero
from . import interp as I


def _t(x):
    return x if isinstance(x, Tensor) else Tensor.from_nested(x)


def _tup(v, n):
    if isinstance(v, Tensor):
        v = v.tolist()
    if isinstance(v, (tuple, list)):
        if len(v) == 1 and n > 1:
            return tuple(v) * n
        return tuple(v)
    return (v,) * n


def _shape_args(shape):
    if len(shape) == 1 and isinstance(shape[0], (tuple, list)):
        shape = tuple(shape[0])
    return tuple(concretize_int(s.item() if isinstance(s, Tensor) else s) for s in shape)


def fresh_real(prefix):
    p = PATH()
    if p is None or p.concrete:
        return 0.0
    return p.fresh(prefix, z3.RealSort())


# ------------------------------------------------------------------------------------------ uninterpreted real functions
_RSQRT = z3.Function('rsqrt', z3.RealSort(), z3.RealSort())
_SQRT = z3.Function('sqrt', z3.RealSort(), z3.RealSort())
_LOG = z3.Function('log', z3.RealSort(), z3.RealSort())
_EXP = z3.Function('exp', z3.RealSort(), z3.RealSort())


def u_rsqrt(a):
    if not is_sym(a):
        return a ** -0.5
    a = to_real(a)
    r = _RSQRT(a)
    PATH().add_side(z3.Implies(a > 0, r > 0))
    return r


def u_sqrt(a):
    if not is_sym(a):
        return math.sqrt(a)
    a = to_real(a)
    r = _SQRT(a)
    PATH().add_side(z3.Implies(a >= 0, z3.And(r >= 0, r * r == a)))
    return r


def u_exp(a):
    if not is_sym(a):
        return math.exp(a)
    r = _EXP(to_real(a))
    PATH().add_side(r > 0)
    return r


_SIGMOID = z3.Function('sigmoid', z3.RealSort(), z3.RealSort())
_TANH = z3.Function('tanh', z3.RealSort(), z3.RealSort())


def u_sigmoid(a):
    """uninterpreted function with range (0, 1) (monotonicity is not stated: not needed so far)"""
    if not is_sym(a):
        a = float(a)
        if a >= 0:
            return 1.0 / (1.0 + math.exp(-a))
        e = math.exp(a)                    # no overflow for large negative arguments
        return e / (1.0 + e)
    r = _SIGMOID(to_real(a))
    PATH().add_side(z3.And(r > 0, r < 1))
    return r


def u_tanh(a):
    if not is_sym(a):
        return math.tanh(a)
    r = _TANH(to_real(a))
    PATH().add_side(z3.And(r > -1, r < 1))
    return r


def global_avg_pool(x, nd):
    """adaptive average pooling to output size 1: mean over the last nd dimensions"""
    x = _t(x)
    lead = x.shape[:-nd]
    inner = _prod(x.shape[-nd:])
    els = []
    for o in range(_prod(lead)):
        acc = 0
        for i in range(inner):
            acc = s_add(acc, x.els[o * inner + i])
        els.append(s_div(acc, inner))
    return Tensor(lead + (1,) * nd, els)


def u_log(a):
    if not is_sym(a):
        return math.log(a)
    return _LOG(to_real(a))


# ------------------------------------------------------------------------------------------ softmax family
def softmax_vec(logits, label='theta'):
    """contract of softmax over one vector: positive, sums to one, strictly order preserving"""
    n = len(logits)
    if not any(is_sym(x) for x in logits):
        m = max(logits)
        ex = [math.exp(x - m) for x in logits]
        s = sum(ex)
        return [e / s for e in ex]
    p = PATH()
    lg0 = [to_real(x) if is_sym(x) else z3.RealVal(fractions.Fraction(x)) for x in logits]
    cache = p.__dict__.setdefault('softmax_cache', {})
    key = tuple(t.get_id() for t in lg0)
    if key in cache:                      # softmax is a function: same logits, same result
        return list(cache[key])
    th = [p.fresh(label, z3.RealSort()) for _ in range(n)]
    cache[key] = th
    # remembered so that arg-max over the result can be decided on the logits (softmax is strictly order preserving)
    org = p.__dict__.setdefault('softmax_origin', {})
    for i, t in enumerate(th):
        org[t.get_id()] = (key, i, lg0)
    ax = [t > 0 for t in th]
    ax.append(z3.Sum(th) == 1 if n > 1 else th[0] == 1)
    lg = [to_real(x) if is_sym(x) else z3.RealVal(fractions.Fraction(x)) for x in logits]
    for i in range(n):
        for j in range(i + 1, n):
            ax.append((lg[i] < lg[j]) == (th[i] < th[j]))
            ax.append((lg[i] == lg[j]) == (th[i] == th[j]))
    p.add_side(z3.And(*ax))
    return th


def along_dim(t, dim, f):
    """apply f (list -> list of the same length) to every 1-d fibre of t along `dim`"""
    dim = t._norm_dim(dim)
    outer = _prod(t.shape[:dim])
    n = t.shape[dim]
    inner = _prod(t.shape[dim + 1:])
    els = list(t.els)
    for o in range(outer):
        for i in range(inner):
            idxs = [(o * n + k) * inner + i for k in range(n)]
            res = f([t.els[j] for j in idxs])
            for j, r in zip(idxs, res):
                els[j] = r
    return Tensor(t.shape, els)


def f_softmax(x, dim=None, **kw):
    if dim is None:
        dim = 0 if len(x.shape) in (0, 1, 3) else 1
    if len(x.shape) == 0:
        if dim not in (0, -1):
            raise IndexError('Dimension out of range')
        return Tensor((), softmax_vec(list(x.els)))          # torch: softmax of a 0-d tensor along dim 0 is 1
    return along_dim(x, dim, softmax_vec)


def f_gumbel_softmax(logits, tau=1, hard=False, eps=1e-10, dim=-1):
    """contract: a probability vector; one-hot (location unspecified) if hard"""
    p = PATH()
    if p is None or p.concrete:
        raise Unsupported('gumbel_softmax in concrete mode (random)')

    def g(xs):
        n = len(xs)
        th = [p.fresh('gs', z3.RealSort()) for _ in range(n)]
        ax = [t >= 0 for t in th] + [z3.Sum(th) == 1 if n > 1 else th[0] == 1]
        hard_c = as_bool(hard) if is_sym(hard) else bool(hard)
        oh = z3.And(*[z3.Or(t == 0, t == 1) for t in th])
        if is_sym(hard_c):
            ax.append(z3.Implies(hard_c, oh))
        elif hard_c:
            ax.append(oh)
        else:
            ax.extend([t > 0 for t in th])
        p.add_side(z3.And(*ax))
        return th
    return along_dim(logits, dim, g)


def f_one_hot(idx, num_classes=-1):
    idx = _t(idx)
    nc = concretize_int(num_classes)
    if nc < 0:
        raise Unsupported('one_hot without num_classes')
    els = []
    for v in idx.els:
        for k in range(nc):
            els.append(s_ite(s_cmp('==', v, k), 1, 0) if is_sym(v) else (1 if v == k else 0))
    return Tensor(idx.shape + (nc,), els)


# ------------------------------------------------------------------------------------------ conv / linear
def _pad_amounts(padding, nd, k, dil):
    if isinstance(padding, str):
        if padding == 'valid':
            return [(0, 0)] * nd
        if padding == 'same':
            out = []
            for kk, dd in zip(k, dil):
                tot = dd * (kk - 1)
                out.append((tot // 2, tot - tot // 2))
            return out
        raise Unsupported(f'padding mode {padding}')
    p = _tup(padding, nd)
    return [(concretize_int(x), concretize_int(x)) for x in p]


def f_convnd(nd, x, w, b=None, stride=1, padding=0, dilation=1, groups=1):
    x, w = _t(x), _t(w)
    batched = len(x.shape) == nd + 2
    if not batched:
        if len(x.shape) != nd + 1:
            raise I.RaiseEx(RuntimeError(f'conv{nd}d: expected {nd + 1}D or {nd + 2}D input, got shape {x.shape}'))
        x = x.unsqueeze(0)
    N, C = x.shape[0], x.shape[1]
    sp = x.shape[2:]
    O, Cg = w.shape[0], w.shape[1]
    k = w.shape[2:]
    groups = concretize_int(groups)
    stride = [concretize_int(s) for s in _tup(stride, nd)]
    dil = [concretize_int(s) for s in _tup(dilation, nd)]
    pads = _pad_amounts(padding, nd, k, dil)
    if C != Cg * groups or O % groups != 0:
        raise I.RaiseEx(RuntimeError(f'conv{nd}d: weight of shape {w.shape} (groups={groups}) does not match input with {C} channels'))
    out_sp = []
    for d in range(nd):
        L = sp[d] + pads[d][0] + pads[d][1] - dil[d] * (k[d] - 1) - 1
        if L < 0:
            raise I.RaiseEx(RuntimeError('conv: kernel size larger than (padded) input'))
        out_sp.append(L // stride[d] + 1)
    xs = _strided(x.shape)
    ws = _strided(w.shape)
    opg = O // groups
    els = []
    for n in range(N):
        for o in range(O):
            g = o // opg
            for pos in _it.product(*[range(s) for s in out_sp]):
                acc = 0.0 if b is None else b.els[o]
                for c in range(Cg):
                    cin = g * Cg + c
                    for kp in _it.product(*[range(s) for s in k]):
                        ok = True
                        xo = n * xs[0] + cin * xs[1]
                        for d in range(nd):
                            ip = pos[d] * stride[d] - pads[d][0] + kp[d] * dil[d]
                            if ip < 0 or ip >= sp[d]:
                                ok = False
                                break
                            xo += ip * xs[2 + d]
                        if not ok:
                            continue
                        wv = w.els[o * ws[0] + c * ws[1] + sum(kp[d] * ws[2 + d] for d in range(nd))]
                        xv = x.els[xo]
                        if (not is_sym(wv) and wv == 0) or (not is_sym(xv) and xv == 0):
                            continue
                        acc = s_add(acc, s_mul(to_real(wv), to_real(xv)))
                els.append(acc)
    out = Tensor((N, O) + tuple(out_sp), els)
    return out if batched else out.squeeze(0)


def _strided(shape):
    st = []
    acc = 1
    for s in reversed(shape):
        st.append(acc)
        acc *= s
    return tuple(reversed(st))


def f_linear(x, w, b=None):
    x, w = _t(x), _t(w)
    O, Iin = w.shape
    if x.shape[-1] != Iin:
        raise I.RaiseEx(RuntimeError(f'linear: input features {x.shape[-1]} != weight in_features {Iin}'))
    rows = _prod(x.shape[:-1])
    els = []
    for r in range(rows):
        for o in range(O):
            acc = 0.0 if b is None else b.els[o]
            for i in range(Iin):
                wv, xv = w.els[o * Iin + i], x.els[r * Iin + i]
                if (not is_sym(wv) and wv == 0) or (not is_sym(xv) and xv == 0):
                    continue
                acc = s_add(acc, s_mul(to_real(wv), to_real(xv)))
            els.append(acc)
    return Tensor(x.shape[:-1] + (O,), els)


def f_pad(x, pad, mode='constant', value=0):
    x = _t(x)
    pad = [concretize_int(p) for p in pad]
    if isinstance(value, Tensor):           # torch converts a one-element tensor given as the fill value with float()
        if len(value.els) != 1:
            raise TypeError('pad(): argument value must be a number')
        value = value.els[0]
    t = x
    d = len(x.shape) - 1
    for i in range(0, len(pad), 2):
        lo, hi = pad[i], pad[i + 1]
        parts = []
        sh = list(t.shape)
        if lo > 0:
            sh[d] = lo
            parts.append(Tensor.full(sh, value if value is not None else 0.0))
        elif lo < 0:
            t = t._select(d, list(range(-lo, t.shape[d])))
        parts.append(t)
        if hi > 0:
            sh = list(t.shape)
            sh[d] = hi
            parts.append(Tensor.full(sh, value if value is not None else 0.0))
        elif hi < 0:
            parts[-1] = t._select(d, list(range(0, t.shape[d] + hi)))
        t = cat(parts, d)
        d -= 1
    return t


def f_batch_norm_eval(x, rm, rv, w, b, eps):
    """inference-mode batch norm: per channel (dim 1) affine map with an uninterpreted positive rsqrt"""
    x = _t(x)
    C = x.shape[1] if len(x.shape) > 1 else x.shape[0]
    inner = _prod(x.shape[2:]) if len(x.shape) > 2 else 1
    els = []
    for idx, v in enumerate(x.els):
        c = (idx // inner) % C if len(x.shape) > 1 else idx
        r = u_rsqrt(s_add(rv.els[c], eps))
        y = s_mul(s_sub(v, rm.els[c]), r)
        if w is not None:
            y = s_mul(y, w.els[c])
        if b is not None:
            y = s_add(y, b.els[c])
        els.append(y)
    return Tensor(x.shape, els)


def f_batch_norm_train(x, w, b, eps):
    """training-mode batch norm: normalisation with the (biased) batch statistics; returns (y, batch mean, unbiased batch variance)"""
    x = _t(x)
    if len(x.shape) < 2:
        raise Unsupported('batch_norm on a 1-d input')
    C = x.shape[1]
    inner = _prod(x.shape[2:]) if len(x.shape) > 2 else 1
    n = x.shape[0] * inner
    if n <= 1:
        raise ValueError(f'Expected more than 1 value per channel when training, got input size {list(x.shape)}')
    sums = [0] * C
    for idx, v in enumerate(x.els):
        c = (idx // inner) % C
        sums[c] = s_add(sums[c], v)
    mean = [s_div(t, n) for t in sums]
    sq = [0] * C
    for idx, v in enumerate(x.els):
        c = (idx // inner) % C
        d = s_sub(v, mean[c])
        sq[c] = s_add(sq[c], s_mul(d, d))
    var = [s_div(t, n) for t in sq]
    r = [u_rsqrt(s_add(v, eps)) for v in var]
    els = []
    for idx, v in enumerate(x.els):
        c = (idx // inner) % C
        y = s_mul(s_sub(v, mean[c]), r[c])
        if w is not None:
            y = s_mul(y, w.els[c])
        if b is not None:
            y = s_add(y, b.els[c])
        els.append(y)
    return Tensor(x.shape, els), mean, [s_div(t, n - 1) for t in sq]


# ------------------------------------------------------------------------------------------ nn.Module stubs
def build_nn(interp, torch):
    S = I.StubClass
    RaiseEx = I.RaiseEx

    def is_module(v):
        return isinstance(v, I.Obj) and MODULE in v.cls.mro()

    def m_init(it, self, *a, **k):
        self.attrs['training'] = True
        self.attrs['_parameters'] = {}
        self.attrs['_buffers'] = {}
        self.attrs['_modules'] = {}

    def m_setattr(it, self, name, v):
        a = self.attrs
        if '_parameters' not in a:
            if isinstance(v, Tensor) and v.is_param or is_module(v):
                raise RaiseEx(AttributeError('cannot assign parameters/modules before Module.__init__() call'))
            a[name] = v
            return
        P, B, M = a['_parameters'], a['_buffers'], a['_modules']
        if isinstance(v, Tensor) and v.is_param:
            a.pop(name, None), B.pop(name, None), M.pop(name, None)
            P[name] = v
        elif name in P:
            if v is not None:
                raise RaiseEx(TypeError(f"cannot assign '{type(v).__name__}' as parameter '{name}' (torch.nn.Parameter or None expected)"))
            P[name] = None
        elif is_module(v):
            a.pop(name, None), B.pop(name, None), P.pop(name, None)
            M[name] = v
        elif name in M:
            if v is not None:
                raise RaiseEx(TypeError(f"cannot assign as child module '{name}' (torch.nn.Module or None expected)"))
            M[name] = None
        elif name in B:
            if v is not None and not isinstance(v, Tensor):
                raise RaiseEx(TypeError(f"cannot assign as buffer '{name}' (torch.Tensor or None expected)"))
            B[name] = v
        else:
            a[name] = v

    def m_delattr(it, self, name):
        a = self.attrs
        for d in ('_parameters', '_buffers', '_modules'):
            if d in a and name in a[d]:
                del a[d][name]
                return
        if name in a:
            del a[name]
            return
        raise RaiseEx(AttributeError(name))

    def m_register_buffer(it, self, name, tensor, persistent=True):
        a = self.attrs
        if '_buffers' not in a:
            raise RaiseEx(AttributeError('cannot assign buffer before Module.__init__() call'))
        if name in a or name in a['_parameters'] or name in a['_modules']:
            if name not in a['_buffers']:
                raise RaiseEx(KeyError(f"attribute '{name}' already exists"))
        if not isinstance(name, str) or '.' in name or name == '':
            raise RaiseEx(KeyError('invalid buffer name'))
        if tensor is not None and not isinstance(tensor, Tensor):
            raise RaiseEx(TypeError('cannot assign non-tensor as buffer'))
        a['_buffers'][name] = tensor
        if not it.py_truth(persistent):
            a.setdefault('_non_persistent', set()).add(name)

    def m_register_parameter(it, self, name, p):
        self.attrs['_parameters'][name] = p

    def m_add_module(it, self, name, m):
        self.attrs['_modules'][name] = m

    def named_modules(it, self, memo=None, prefix='', remove_duplicate=True):
        out = []
        seen = set()

        def rec(m, pre):
            if id(m) in seen:
                return
            seen.add(id(m))
            out.append((pre, m))
            for n, c in m.attrs.get('_modules', {}).items():
                if c is not None:
                    rec(c, pre + ('.' if pre else '') + n)
        rec(self, prefix)
        return out

    def named_parameters(it, self, prefix='', recurse=True, remove_duplicate=True):
        out = []
        seen = set()
        mods = named_modules(it, self, prefix=prefix) if recurse else [(prefix, self)]
        for pre, m in mods:
            for n, p in m.attrs.get('_parameters', {}).items():
                if p is None or id(p) in seen:
                    continue
                seen.add(id(p))
                out.append((pre + ('.' if pre else '') + n, p))
        return iter(out)

    def named_buffers(it, self, prefix='', recurse=True):
        out = []
        seen = set()
        mods = named_modules(it, self, prefix=prefix) if recurse else [(prefix, self)]
        for pre, m in mods:
            for n, p in m.attrs.get('_buffers', {}).items():
                if p is None or id(p) in seen:
                    continue
                seen.add(id(p))
                out.append((pre + ('.' if pre else '') + n, p))
        return iter(out)

    def m_train(it, self, mode=True):
        for _, m in named_modules(it, self):
            m.attrs['training'] = mode
        return self

    def m_call(it, self, *a, **k):
        return it.call(it.getattr(self, 'forward'), list(a), k)

    def m_get_submodule(it, self, target):
        m = self
        if target == '':
            return m
        for part in target.split('.'):
            mm = m.attrs.get('_modules', {}).get(part)
            if mm is None:
                raise RaiseEx(AttributeError(f'no submodule {part}'))
            m = mm
        return m

    def _state_entries(self, prefix=''):
        """(key, owner dict, local name) in torch order: per module its parameters then its buffers, then the children - a module or
        tensor reachable under two names appears under both (torch does not deduplicate state_dict keys)"""
        out = []
        a = self.attrs
        for n, p in a.get('_parameters', {}).items():
            if p is not None:
                out.append((prefix + n, a['_parameters'], n))
        for n, b in a.get('_buffers', {}).items():
            if b is not None and n not in a.get('_non_persistent', ()):
                out.append((prefix + n, a['_buffers'], n))
        for n, c in a.get('_modules', {}).items():
            if c is not None:
                out.extend(_state_entries(c, prefix + n + '.'))
        return out

    def m_state_dict(it, self, *a, prefix='', **k):
        return {key: owner[n] for key, owner, n in _state_entries(self, prefix)}

    class LoadResult:
        """torch.nn.modules.module._IncompatibleKeys"""
        def __init__(self, missing, unexpected):
            self.missing_keys, self.unexpected_keys = missing, unexpected

        def __iter__(self):
            return iter((self.missing_keys, self.unexpected_keys))

    def m_load_state_dict(it, self, state_dict, strict=True, assign=False):
        if assign:
            raise Unsupported('load_state_dict(assign=True)')
        sd = dict(state_dict)
        seen = set()
        missing, errors = [], []
        for key, owner, n in _state_entries(self):
            if key not in sd:
                missing.append(key)
                continue
            seen.add(key)
            src, dst = sd[key], owner[n]
            if not isinstance(src, Tensor):
                errors.append(f'While copying the parameter named "{key}", expected torch.Tensor')
                continue
            if tuple(src.shape) != tuple(dst.shape):
                errors.append(f'size mismatch for {key}: copying a param with shape {src.shape} from checkpoint, the shape in current model is {dst.shape}.')
                continue
            dst.els = list(src.els)
        unexpected = [k_ for k_ in sd if k_ not in seen]
        if it.py_truth(strict):
            if unexpected:
                errors.insert(0, 'Unexpected key(s) in state_dict: ' + ', '.join(f'"{k_}"' for k_ in unexpected))
            if missing:
                errors.insert(0, 'Missing key(s) in state_dict: ' + ', '.join(f'"{k_}"' for k_ in missing))
        if errors:
            raise RaiseEx(RuntimeError('Error(s) in loading state_dict:\n\t' + '\n\t'.join(errors)))
        return LoadResult(missing, unexpected)

    MODULE = S('nn.Module', {
        '__init__': m_init, '__setattr__': m_setattr, '__delattr__': m_delattr, 'register_buffer': m_register_buffer,
        'register_parameter': m_register_parameter, 'add_module': m_add_module,
        'named_modules': lambda it, s, *a, **k: iter(named_modules(it, s, *a, **k)),
        'modules': lambda it, s: iter([m for _, m in named_modules(it, s)]),
        'named_children': lambda it, s: iter([(n, c) for n, c in s.attrs['_modules'].items() if c is not None]),
        'children': lambda it, s: iter([c for c in s.attrs['_modules'].values() if c is not None]),
        'named_parameters': named_parameters,
        'parameters': lambda it, s, recurse=True: iter([p for _, p in named_parameters(it, s, recurse=recurse)]),
        'named_buffers': named_buffers,
        'buffers': lambda it, s, recurse=True: iter([p for _, p in named_buffers(it, s, recurse=recurse)]),
        'train': m_train, 'eval': lambda it, s: m_train(it, s, False), '__call__': m_call,
        'get_submodule': m_get_submodule, 'state_dict': m_state_dict, 'load_state_dict': m_load_state_dict,
        'to': lambda it, s, *a, **k: s, 'cuda': lambda it, s, *a, **k: s, 'cpu': lambda it, s: s,
        'float': lambda it, s: s, 'double': lambda it, s: s,
        'requires_grad_': lambda it, s, v=True: ([setattr(p, 'requires_grad', v) for _, p in named_parameters(it, s)], s)[1],
        'zero_grad': lambda it, s, *a, **k: None,
        'extra_repr': lambda it, s: '',
    })

    def param_tensor(shape, prefix):
        p = PATH()
        n = _prod(shape)
        if p is None or p.concrete:
            els = [0.0] * n
        else:
            els = [p.fresh(prefix, z3.RealSort()) for _ in range(n)]
        return Tensor(shape, els, requires_grad=True, is_param=True)

    def convnd_init(nd):
        def init(it, self, in_channels, out_channels, kernel_size, stride=1, padding=0, dilation=1, groups=1, bias=True,
                 padding_mode='zeros', device=None, dtype=None):
            m_init(it, self)
            in_channels, out_channels, groups = concretize_int(in_channels), concretize_int(out_channels), concretize_int(groups)
            ks = tuple(concretize_int(k) for k in _tup(kernel_size, nd))
            if groups <= 0 or in_channels % groups != 0:
                raise RaiseEx(ValueError('in_channels must be divisible by groups'))
            if out_channels % groups != 0:
                raise RaiseEx(ValueError('out_channels must be divisible by groups'))
            bias = it.py_truth(bias)
            self.attrs.update(in_channels=in_channels, out_channels=out_channels, kernel_size=ks,
                              stride=tuple(concretize_int(s) for s in _tup(stride, nd)),
                              padding=padding if isinstance(padding, str) else tuple(concretize_int(s) for s in _tup(padding, nd)),
                              dilation=tuple(concretize_int(s) for s in _tup(dilation, nd)), groups=groups, padding_mode=padding_mode,
                              transposed=False, output_padding=(0,) * nd)
            self.attrs['_parameters']['weight'] = param_tensor((out_channels, in_channels // groups) + ks, 'w')
            self.attrs['_parameters']['bias'] = param_tensor((out_channels,), 'b') if bias else None
        return init

    def conv_forward(nd):
        def _conv_forward(it, self, x, weight, bias):
            a = self.attrs
            if a['padding_mode'] != 'zeros':
                raise Unsupported('padding_mode != zeros')
            return f_convnd(nd, x, weight, bias, a['stride'], a['padding'], a['dilation'], a['groups'])

        def forward(it, self, x):
            return _conv_forward(it, self, x, it.getattr(self, 'weight'), it.getattr(self, 'bias'))
        return _conv_forward, forward

    CONVND = S('nn.modules.conv._ConvNd', {}, (MODULE,))
    cf1, fw1 = conv_forward(1)
    cf2, fw2 = conv_forward(2)
    cf3, fw3 = conv_forward(3)
    CONV1D = S('nn.Conv1d', {'__init__': convnd_init(1), '_conv_forward': cf1, 'forward': fw1}, (CONVND,))
    CONV2D = S('nn.Conv2d', {'__init__': convnd_init(2), '_conv_forward': cf2, 'forward': fw2}, (CONVND,))
    CONV3D = S('nn.Conv3d', {'__init__': convnd_init(3), '_conv_forward': cf3, 'forward': fw3}, (CONVND,))

    def linear_init(it, self, in_features, out_features, bias=True, device=None, dtype=None):
        m_init(it, self)
        in_features, out_features = concretize_int(in_features), concretize_int(out_features)
        self.attrs.update(in_features=in_features, out_features=out_features)
        self.attrs['_parameters']['weight'] = param_tensor((out_features, in_features), 'w')
        self.attrs['_parameters']['bias'] = param_tensor((out_features,), 'b') if it.py_truth(bias) else None

    LINEAR = S('nn.Linear', {'__init__': linear_init,
                             'forward': lambda it, s, x: f_linear(x, it.getattr(s, 'weight'), it.getattr(s, 'bias'))}, (MODULE,))

    def bn_init(it, self, num_features, eps=1e-5, momentum=0.1, affine=True, track_running_stats=True, device=None, dtype=None):
        m_init(it, self)
        nf = concretize_int(num_features)
        self.attrs.update(num_features=nf, eps=eps, momentum=momentum, affine=affine, track_running_stats=track_running_stats)
        P, B = self.attrs['_parameters'], self.attrs['_buffers']
        if it.py_truth(affine):
            P['weight'] = Tensor((nf,), [1.0] * nf, requires_grad=True, is_param=True)
            P['bias'] = Tensor((nf,), [0.0] * nf, requires_grad=True, is_param=True)
        else:
            P['weight'] = None
            P['bias'] = None
        if it.py_truth(track_running_stats):
            B['running_mean'] = Tensor((nf,), [0.0] * nf)
            B['running_var'] = Tensor((nf,), [1.0] * nf)
            B['num_batches_tracked'] = Tensor((), [0])
        else:
            B['running_mean'] = None
            B['running_var'] = None
            B['num_batches_tracked'] = None

    def bn_forward(it, self, x):
        a = self.attrs
        if _t(x).shape[1 if len(_t(x).shape) > 1 else 0] != a['num_features']:
            raise RaiseEx(RuntimeError('BatchNorm: wrong number of features'))
        if a['training'] or a['_buffers']['running_mean'] is None:
            # batch statistics; in training mode the running statistics are updated in place (momentum rule)
            try:
                y, mean, uvar = f_batch_norm_train(x, a['_parameters']['weight'], a['_parameters']['bias'], a['eps'])
            except ValueError as e:
                raise RaiseEx(e)
            B = a['_buffers']
            if a['training'] and B['running_mean'] is not None:
                if a['momentum'] is None:
                    raise Unsupported('BatchNorm with cumulative moving average (momentum=None)')
                mo = a['momentum']
                rm, rv = B['running_mean'], B['running_var']
                rm.els = [s_add(s_mul(1 - mo, o), s_mul(mo, m_)) for o, m_ in zip(rm.els, mean)]
                rv.els = [s_add(s_mul(1 - mo, o), s_mul(mo, v_)) for o, v_ in zip(rv.els, uvar)]
                nb = B.get('num_batches_tracked')
                if nb is not None:
                    nb.els = [s_add(nb.els[0], 1)]
            return y
        return f_batch_norm_eval(x, a['_buffers']['running_mean'], a['_buffers']['running_var'], a['_parameters']['weight'],
                                 a['_parameters']['bias'], a['eps'])

    BNBASE = S('nn.modules.batchnorm._BatchNorm', {'__init__': bn_init, 'forward': bn_forward}, (MODULE,))
    BN1D = S('nn.BatchNorm1d', {}, (BNBASE,))
    BN2D = S('nn.BatchNorm2d', {}, (BNBASE,))

    def simple(name, init_fields, forward=None):
        def init(it, self, *a, **k):
            m_init(it, self)
            names = list(init_fields.keys())
            vals = dict(init_fields)
            for n, v in zip(names, a):
                vals[n] = v
            for n, v in k.items():
                vals[n] = v
            self.attrs.update(vals)
        mem = {'__init__': init}
        if forward is not None:
            mem['forward'] = forward
        else:
            mem['forward'] = lambda it, s, *a, **k: (_ for _ in ()).throw(Unsupported(f'forward of {name}'))
        return S(name, mem, (MODULE,))

    IDENT = simple('nn.Identity', {}, lambda it, s, x: x)
    RELU = simple('nn.ReLU', {'inplace': False}, lambda it, s, x: _t(x).relu())
    RELU6 = simple('nn.ReLU6', {'inplace': False}, lambda it, s, x: _t(x).clamp(0.0, 6.0))
    DROPOUT = simple('nn.Dropout', {'p': 0.5, 'inplace': False},
                     lambda it, s, x: x if not s.attrs['training'] else (_ for _ in ()).throw(Unsupported('dropout in training mode')))
    FLATTEN = simple('nn.Flatten', {'start_dim': 1, 'end_dim': -1}, lambda it, s, x: _t(x).flatten(s.attrs['start_dim'], s.attrs['end_dim']))
    PAD1D = simple('nn.ConstantPad1d', {'padding': 0, 'value': 0}, lambda it, s, x: f_pad(x, _tup(s.attrs['padding'], 2), value=s.attrs['value']))
    PAD2D = simple('nn.ConstantPad2d', {'padding': 0, 'value': 0}, lambda it, s, x: f_pad(x, _tup(s.attrs['padding'], 4), value=s.attrs['value']))
    pools = {n: simple('nn.' + n, {'kernel_size': None, 'stride': None, 'padding': 0}) for n in
             ('MaxPool1d', 'MaxPool2d', 'AvgPool1d', 'AvgPool2d')}
    def apool_forward(nd):
        def fwd(it, s, x):
            os_ = s.attrs['output_size']
            if os_ not in (1, (1,) * nd, [1] * nd):
                raise Unsupported('adaptive average pooling to an output size other than 1')
            return global_avg_pool(x, nd)
        return fwd
    apools = {n: simple('nn.' + n, {'output_size': None}, apool_forward(d)) for n, d in (('AdaptiveAvgPool1d', 1), ('AdaptiveAvgPool2d', 2))}
    misc = {n: simple('nn.' + n, {}) for n in ('SiLU', 'Upsample', 'Softmax')}
    misc['Sigmoid'] = simple('nn.Sigmoid', {}, lambda it, s, x: _t(x).map(u_sigmoid))
    misc['Tanh'] = simple('nn.Tanh', {}, lambda it, s, x: _t(x).map(u_tanh))

    def seq_init(it, self, *mods):
        m_init(it, self)
        for i, m in enumerate(mods):
            self.attrs['_modules'][str(i)] = m

    def seq_forward(it, self, x):
        for m in self.attrs['_modules'].values():
            x = it.call(m, [x], {})
        return x

    def ml_getitem(it, self, k):
        mods = list(self.attrs['_modules'].values())
        if isinstance(k, Tensor):
            k = k.item()
        k = concretize_int(k) if not isinstance(k, slice) else k
        try:
            return mods[k]
        except IndexError as e:
            raise RaiseEx(e)

    SEQ = S('nn.Sequential', {'__init__': seq_init, 'forward': seq_forward, '__getitem__': ml_getitem,
                              '__len__': lambda it, s: len(s.attrs['_modules']),
                              '__iter__': lambda it, s: iter(list(s.attrs['_modules'].values()))}, (MODULE,))

    def ml_init(it, self, mods=None):
        m_init(it, self)
        if mods is not None:
            for i, m in enumerate(it.iterate(mods)):
                self.attrs['_modules'][str(i)] = m

    def ml_append(it, self, m):
        self.attrs['_modules'][str(len(self.attrs['_modules']))] = m
        return self

    MLIST = S('nn.ModuleList', {'__init__': ml_init, 'append': ml_append, '__getitem__': ml_getitem,
                                '__len__': lambda it, s: len(s.attrs['_modules']),
                                '__iter__': lambda it, s: iter(list(s.attrs['_modules'].values()))}, (MODULE,))

    def Parameter(data=None, requires_grad=True):
        t = _t(data) if data is not None else Tensor((0,), [])
        rg = requires_grad
        return Tensor(t.shape, t.els, requires_grad=rg, is_param=True)

    # ---- torch.fx: Tracer / GraphModule / ShapeProp as executable library contracts (pyvc/fxtrace.py)
    from . import fxtrace as FT

    def tr_init(it, self, *a, **k):
        self.attrs['root'] = None

    def tr_trace(it, self, root, concrete_args=None):
        self.attrs['root'] = root
        return FT.trace(it, self, root, FxGraph, FxNode)

    def tr_is_leaf(it, self, m, qualname):
        mod = it.getattr(m, '__module__')
        return (mod.startswith('torch.nn') or mod.startswith('torch.ao.nn')) and SEQ not in m.cls.mro()
    TRACER = S('fx.Tracer', {'__init__': tr_init, 'trace': tr_trace, 'is_leaf_module': tr_is_leaf})

    def _container(it):
        return it.instantiate(MODULE, [], {})

    def gm_put(it, self, target, m):
        parts = target.split('.')
        cur = self
        for p_ in parts[:-1]:
            nxt = cur.attrs['_modules'].get(p_)
            if nxt is None:
                nxt = _container(it)
                cur.attrs['_modules'][p_] = nxt
            cur = nxt
        cur.attrs.pop(parts[-1], None)
        cur.attrs['_modules'][parts[-1]] = m
        return True

    def gm_init(it, self, root, graph, class_name='GraphModule'):
        m_init(it, self)
        self.attrs['graph'] = graph
        self.attrs['_class_name'] = class_name
        self.attrs['training'] = root.attrs.get('training', True) if isinstance(root, I.Obj) else True
        graph.owning_module = self
        for n in graph.nodes:
            if n.op == 'call_module':
                gm_put(it, self, str(n.target), m_get_submodule(it, root, str(n.target)))
            elif n.op == 'get_attr':
                raise Unsupported('get_attr node')

    def gm_forward(it, self, *args):
        return FT.run_graph(it, self.attrs['graph'], lambda t: m_get_submodule(it, self, t), args)

    def gm_delete_submodule(it, self, target):
        parts = target.split('.')
        cur = self
        for p_ in parts[:-1]:
            cur = cur.attrs['_modules'].get(p_)
            if cur is None:
                return False
        if parts[-1] not in cur.attrs['_modules']:
            return False
        del cur.attrs['_modules'][parts[-1]]
        return True

    def gm_delete_unused(it, self):
        used = set()
        for n in self.attrs['graph'].nodes:
            if n.op == 'call_module':
                parts = str(n.target).split('.')
                for i in range(1, len(parts) + 1):
                    used.add('.'.join(parts[:i]))
        called = [str(n.target) for n in self.attrs['graph'].nodes if n.op == 'call_module']
        for name, _ in named_modules(it, self):
            if name == '' or name in used or any(name.startswith(c + '.') for c in called):
                continue
            gm_delete_submodule(it, self, name)

    GRAPHMODULE = S('fx.GraphModule', {'__init__': gm_init, 'forward': gm_forward, 'add_submodule': gm_put, 'delete_submodule': gm_delete_submodule,
                                       'delete_all_unused_submodules': gm_delete_unused, 'recompile': lambda it, s: None,
                                       'print_readable': lambda it, s, *a, **k: ''}, (MODULE,))

    def sp_init(it, self, gm, *a, **k):
        self.attrs['module'] = gm

    def sp_propagate(it, self, *args):
        gm = self.attrs['module']

        def record(n, r):
            if isinstance(r, Tensor):
                n.meta['tensor_meta'] = FT.TensorMeta(r.shape)
            elif isinstance(r, (tuple, list)) and r and all(isinstance(x, Tensor) for x in r):
                n.meta['tensor_meta'] = type(r)(FT.TensorMeta(x.shape) for x in r)
            n.meta['type'] = type(r)
        return FT.run_graph(it, gm.attrs['graph'], lambda t: m_get_submodule(it, gm, t), args, record)
    SHAPEPROP = S('ShapeProp', {'__init__': sp_init, 'propagate': sp_propagate, 'run': sp_propagate})

    PARAM = S('nn.Parameter', {})
    nn = I.NS('torch.nn', Module=MODULE, Conv1d=CONV1D, Conv2d=CONV2D, Conv3d=CONV3D, Linear=LINEAR, BatchNorm1d=BN1D,
              BatchNorm2d=BN2D, Identity=IDENT, ReLU=RELU, ReLU6=RELU6, Dropout=DROPOUT, Flatten=FLATTEN,
              ConstantPad1d=PAD1D, ConstantPad2d=PAD2D, Sequential=SEQ, ModuleList=MLIST, Parameter=ParamFactory(PARAM),
              **pools, **apools, **misc)
    nn.parameter = I.NS('torch.nn.parameter', Parameter=nn.Parameter)
    nn.modules = I.NS('torch.nn.modules', conv=I.NS('conv', _ConvNd=CONVND), batchnorm=I.NS('bn', _BatchNorm=BNBASE))
    nn._fx_stubs = dict(Tracer=TRACER, GraphModule=GRAPHMODULE, ShapeProp=SHAPEPROP)
    return nn


class ParamFactory(I.StubClass):
    """nn.Parameter: callable like the class, usable in isinstance"""
    def __init__(self, base):
        super().__init__('nn.Parameter', {})

    def make(self, data=None, requires_grad=True):
        t = _t(data) if data is not None else Tensor((0,), [])
        rg = requires_grad
        if is_sym(rg):
            rg = truth(rg)
        return Tensor(t.shape, t.els, requires_grad=bool(rg), is_param=True)


# ------------------------------------------------------------------------------------------ fx single-node bookkeeping
class FxNode:
    """minimal torch.fx.Node: target / op / args / users bookkeeping for one-layer graphs (C01/C02/C08 export)"""
    def __init__(self, graph, op, target, args=(), name=None):
        self.graph, self.op, self.target, self.args = graph, op, target, tuple(args)
        self.name = name or str(target).replace('.', '_')
        self.meta = {}
        self.kwargs = {}

    @property
    def all_input_nodes(self):
        out = []

        def rec(a):
            if isinstance(a, FxNode):
                if a not in out:
                    out.append(a)
            elif isinstance(a, (list, tuple)):
                for x in a:
                    rec(x)
            elif isinstance(a, dict):
                for x in a.values():
                    rec(x)
        rec(self.args)
        rec(self.kwargs)
        return out

    @property
    def users(self):
        return {n: None for n in self.graph.nodes if self in n.all_input_nodes}

    @staticmethod
    def _subst(a, old, new):
        if a is old:
            return new
        if isinstance(a, tuple):
            return tuple(FxNode._subst(x, old, new) for x in a)
        if isinstance(a, list):
            return [FxNode._subst(x, old, new) for x in a]
        return a

    def replace_all_uses_with(self, other):
        changed = []
        for n in self.graph.nodes:
            if self in n.all_input_nodes:
                n.args = FxNode._subst(n.args, self, other)
                changed.append(n)
        return changed

    def replace_input_with(self, old, new):
        self.args = FxNode._subst(self.args, old, new)

    def __repr__(self):
        return self.name                 # torch.fx.Node prints as its name (the repository builds sub-module names from it)


class FxGraph:
    def __init__(self):
        self._nodes = []
        self._insert = None

    @property
    def nodes(self):
        return list(self._nodes)          # iteration is safe while nodes are erased (torch.fx uses a linked list)

    class _Ins:
        def __init__(self, g, n, before):
            self.g, self.n, self.before = g, n, before

        def __enter__(self):
            self.prev = self.g._insert
            self.g._insert = (self.n, self.before)
            return self

        def __exit__(self, *a):
            self.g._insert = self.prev
            return False

    def inserting_before(self, n):
        return FxGraph._Ins(self, n, True)

    def inserting_after(self, n):
        return FxGraph._Ins(self, n, False)

    def _add(self, node):
        if self._insert is None:
            self._nodes.append(node)
        else:
            n, before = self._insert
            i = self._nodes.index(n)
            self._nodes.insert(i if before else i + 1, node)
        return node

    def _create_name(self, candidate):
        """torch.fx.graph._Namespace.create_name against the names present in the graph (illegal characters -> '_', numeric suffix until unique)"""
        import re, keyword, builtins
        candidate = re.sub('[^0-9a-zA-Z_]+', '_', candidate) or '_unnamed'
        if candidate[0].isdigit():
            candidate = '_' + candidate
        m = re.match(r'^([a-zA-Z_][0-9a-zA-Z_]*?)(?:_(\d+))?$', candidate)
        base, num = (candidate, None) if m is None else (m.group(1), int(m.group(2)) if m.group(2) else None)
        candidate = base if num is None else f'{base}_{num}'
        used = {n.name for n in self._nodes}
        num = num or 0
        while candidate in used or candidate in keyword.kwlist or candidate in builtins.__dict__ or candidate in ('inf', 'nan', 'NoneType', 'torch', 'device'):
            num += 1
            candidate = f'{base}_{num}'
        return candidate

    def call_module(self, target, args=(), kwargs=None):
        return self._add(FxNode(self, 'call_module', target, args, name=self._create_name(str(target))))

    def placeholder(self, name):
        return self._add(FxNode(self, 'placeholder', name, ()))

    def output(self, arg):
        return self._add(FxNode(self, 'output', 'output', (arg,)))

    def erase_node(self, n):
        if len(n.users) > 0:
            raise RuntimeError(f'Tried to erase Node {n.name} but it still had {len(n.users)} users in the graph')
        self._nodes.remove(n)

    def lint(self):
        pass

    def eliminate_dead_code(self):
        changed = False
        for n in reversed(self.nodes):
            if n.op in ('placeholder', 'output'):
                continue
            if len(n.users) == 0:
                self._nodes.remove(n)
                changed = True
        return changed


class FxGraphModule:
    """minimal torch.fx.GraphModule: a flat table of sub-modules by qualified name and a node list"""
    def __init__(self):
        self.graph = FxGraph()
        self.mods = {}

    def get_submodule(self, name):
        if name not in self.mods:
            raise AttributeError(f'no submodule {name}')
        return self.mods[name]

    def add_submodule(self, name, m):
        self.mods[name] = m
        return True

    def delete_submodule(self, name):
        self.mods.pop(name, None)

    def delete_all_unused_submodules(self):
        used = set()
        for n in self.graph.nodes:
            if n.op == 'call_module':
                parts = str(n.target).split('.')
                for i in range(1, len(parts) + 1):
                    used.add('.'.join(parts[:i]))
        for name in list(self.mods):
            if name not in used:
                del self.mods[name]

    def recompile(self):
        pass

    def run(self, interp, x):
        """evaluate the node list on one input (call_module nodes only)"""
        vals = {}
        out = None
        for n in self.graph.nodes:
            if n.op == 'placeholder':
                vals[n] = x
            elif n.op == 'call_module':
                def val(a):
                    if isinstance(a, FxNode):
                        return vals[a]
                    if isinstance(a, (list, tuple)):
                        return type(a)(val(x) for x in a)
                    return a
                args = [val(a) for a in n.args]
                vals[n] = interp.call(self.mods[str(n.target)], args, {})
                out = vals[n]
            elif n.op == 'output':
                out = vals[n.args[0]]
        return out


# ------------------------------------------------------------------------------------------ networkx (generic digraph operations only)
class NxDiGraph:
    """the handful of networkx.DiGraph operations the graph passes use; nodes are arbitrary hashable objects"""
    def __init__(self):
        self._succ = {}
        self._pred = {}

    def add_node(self, n):
        self._succ.setdefault(n, [])
        self._pred.setdefault(n, [])

    def add_edge(self, a, b):
        self.add_node(a)
        self.add_node(b)
        if b not in self._succ[a]:
            self._succ[a].append(b)
            self._pred[b].append(a)

    @property
    def nodes(self):
        return list(self._succ.keys())

    @property
    def edges(self):
        return [(a, b) for a, bs in self._succ.items() for b in bs]

    def predecessors(self, n):
        return iter(list(self._pred[n]))

    def successors(self, n):
        return iter(list(self._succ[n]))

    def remove_edge(self, a, b):
        if b not in self._succ.get(a, []):
            raise KeyError('edge not in graph')
        self._succ[a].remove(b)
        self._pred[b].remove(a)

    def remove_node(self, n):
        for b in list(self._succ[n]):
            self._pred[b].remove(n)
        for a in list(self._pred[n]):
            self._succ[a].remove(n)
        del self._succ[n]
        del self._pred[n]

    def __contains__(self, n):
        return n in self._succ

    def __len__(self):
        return len(self._succ)


def nx_weakly_connected_components(g):
    seen = set()
    out = []
    for start in g.nodes:
        if start in seen:
            continue
        comp = []
        stack = [start]
        seen.add(start)
        while stack:
            x = stack.pop()
            comp.append(x)
            for y in g._succ[x] + g._pred[x]:
                if y not in seen:
                    seen.add(y)
                    stack.append(y)
        out.append(comp)
    return iter([OrderedNodeSet(c) for c in out])


class OrderedNodeSet(list):
    """a connected component (networkx returns a set; iteration order is the only difference)"""
    pass


# ------------------------------------------------------------------------------------------ install
def install(interp):
    B = I.InterpBuiltin
    torch = I.NS('torch')
    nn = build_nn(interp, torch)
    torch.nn = nn
    TENSOR = I.StubClass('torch.Tensor', {})

    def tensor_ctor(*a, **k):
        # torch.Tensor(n) -> uninitialised float tensor of n elements (modelled as zeros); torch.Tensor(list) -> float tensor
        if len(a) == 1 and isinstance(a[0], (list, tuple, Tensor)):
            return Tensor.from_nested(a[0]).float()
        return Tensor.full(_shape_args(a), 0.0)
    TENSOR.make = tensor_ctor
    torch.Tensor = TENSOR
    torch.Size = tuple
    for d in ('float32', 'float', 'float64', 'double', 'int32', 'int64', 'int', 'long', 'bool', 'uint8', 'int8', 'float16', 'half'):
        setattr(torch, d, 'dtype.' + d)
    torch.device = lambda *a, **k: 'cpu'
    torch.no_grad = I.NoGrad
    torch.enable_grad = I.NoGrad
    torch.cuda = I.NS('cuda', is_available=lambda: False)
    torch.finfo = lambda dt=None: I.NS('finfo', eps=2.0 ** -23, max=3.4028234663852886e+38, min=-3.4028234663852886e+38, tiny=2.0 ** -126)

    def nodev(kw):
        for k in ('dtype', 'device', 'requires_grad', 'out'):
            kw.pop(k, None)
        return kw

    def t_tensor(data, dtype=None, device=None, requires_grad=False):
        t = Tensor.from_nested(data)
        if isinstance(dtype, str) and ('float' in dtype or 'double' in dtype):
            t = t.float()
        elif dtype is None and t.els and all(isinstance(e, float) or (is_sym(e) and z3.is_real(e)) for e in t.els):
            pass
        elif isinstance(dtype, str) and dtype.startswith('dtype.') and 'int' in dtype:
            t = t._as_dtype(dtype[6:])
        t.requires_grad = bool(requires_grad)
        return t

    def filled(v):
        def f(*shape, **kw):
            if 'size' in kw:
                shape = (kw.pop('size'),)
            dt = kw.get('dtype')
            val = v
            if isinstance(dt, str) and ('int' in dt or 'long' in dt):
                val = int(v)
            elif isinstance(dt, str) and 'bool' in dt:
                val = bool(v)
            return Tensor.full(_shape_args(shape), val)
        return f

    def like(v):
        return lambda t, **kw: Tensor.full(_t(t).shape, v)

    torch.tensor = t_tensor
    torch.as_tensor = t_tensor
    torch.Tensor_ctor = t_tensor
    torch.ones = filled(1.0)
    torch.zeros = filled(0.0)
    torch.empty = filled(0.0)
    torch.ones_like = like(1.0)
    torch.zeros_like = like(0.0)
    torch.full = lambda size, fill_value, **kw: Tensor.full(_shape_args((size,)), fill_value)
    torch.arange = lambda *a, **kw: Tensor.from_nested(list(range(*[concretize_int(x) for x in a])))
    torch.eye = lambda n, **kw: Tensor((n, n), [1.0 if i == j else 0.0 for i in range(n) for j in range(n)])

    def t_rand(*shape, **kw):
        p = PATH()
        if p is None or p.concrete:
            raise Unsupported('random tensor in concrete mode')
        sh = _shape_args(shape)
        return Tensor(sh, [p.fresh('rnd', z3.RealSort()) for _ in range(_prod(sh))])
    torch.rand = t_rand
    torch.randn = t_rand

    def m1(name):
        return lambda t, *a, **k: getattr(_t(t), name)(*a, **nodev(k))
    for n in ('abs', 'floor', 'ceil', 'round', 'relu', 'neg', 'flip', 'transpose', 'triu', 'tril', 'matmul', 'dot', 'sum', 'mean',
              'prod', 'squeeze', 'unsqueeze', 'flatten', 'reshape', 'permute', 'argmax', 'argmin', 'any', 'all', 'clamp',
              'clip', 'logical_not', 'nonzero', 'amax', 't', 'numel', 'clone', 'detach'):
        setattr(torch, n, m1(n))
    torch.mul = lambda a, b: _t(a).mul(b) if isinstance(a, Tensor) or not isinstance(b, Tensor) else b.mul(a)
    torch.add = lambda a, b, alpha=1: (_t(a).add(b) if alpha == 1 else _t(a).add(_t(b).mul(alpha))) if isinstance(a, Tensor) or not isinstance(b, Tensor) else b.add(a)
    torch.sub = lambda a, b: _t(a).sub(b) if isinstance(a, Tensor) or not isinstance(b, Tensor) else b.rsub(a)
    torch.div = lambda a, b, rounding_mode=None: _div(a, b, rounding_mode)
    torch.true_divide = lambda a, b: _div(a, b, None)
    torch.floor_divide = lambda a, b: _div(a, b, 'floor')
    torch.pow = lambda a, b: _t(a).pow(b) if isinstance(a, Tensor) else _t(b).rpow(a)
    torch.maximum = lambda a, b: _t(a).maximum(b)
    torch.minimum = lambda a, b: _t(a).minimum(b)
    torch.max = lambda t, *a, **k: _t(t).max(*a, **k)
    torch.min = lambda t, *a, **k: _t(t).min(*a, **k)
    torch.logical_or = lambda a, b: _t(a).logical_or(b)
    torch.logical_and = lambda a, b: _t(a).logical_and(b)
    torch.eq = lambda a, b: _t(a).eq(b)
    torch.ne = lambda a, b: _t(a).ne(b)
    torch.gt = lambda a, b: _t(a).gt(b)
    torch.ge = lambda a, b: _t(a).ge(b)
    torch.lt = lambda a, b: _t(a).lt(b)
    torch.le = lambda a, b: _t(a).le(b)
    torch.where = lambda c, a, b: _t(a).expand_to(_t(c).shape).where(_t(c), b) if isinstance(a, Tensor) else Tensor.full(_t(c).shape, a).where(_t(c), b)
    torch.cat = lambda ts, dim=0: cat([_t(x) for x in ts], dim)
    torch.sigmoid = lambda t: _t(t).map(u_sigmoid)
    torch.tanh = lambda t: _t(t).map(u_tanh)
    torch.concat = torch.cat
    torch.stack = lambda ts, dim=0: stack(list(ts), dim)
    torch.rsqrt = lambda t: _t(t).map(u_rsqrt)
    torch.sqrt = lambda t: _t(t).map(u_sqrt)
    torch.exp = lambda t: _t(t).map(u_exp)
    torch.log = lambda t: _t(t).map(u_log)
    torch.isclose = lambda a, b, rtol=1e-05, atol=1e-08, equal_nan=False: _t(a).zipw(b, lambda x, y: s_cmp('<=', s_abs(s_sub(x, y)), s_add(atol, s_mul(rtol, s_abs(y)))))
    torch.is_tensor = lambda x: isinstance(x, Tensor)
    torch.softmax = f_softmax
    torch.isin = lambda el, tests: _t(el).map(lambda a: s_or(*[s_cmp('==', a, b) for b in _t(tests).els]))
    torch.manual_seed = lambda *a: None
    torch.outer = lambda a, b: Tensor((_t(a).shape[0], _t(b).shape[0]), [s_mul(x, y) for x in _t(a).els for y in _t(b).els])
    torch.ger = torch.outer
    torch.kron = lambda a, b: torch.outer(_t(a).flatten(), _t(b).flatten()).flatten() if len(_t(a).shape) == 1 and len(_t(b).shape) == 1 else _unsupported('kron of matrices')
    torch.tile = lambda t, dims: _t(t).repeat(*dims)
    torch.repeat_interleave = lambda t, repeats, dim=None: _repeat_interleave(_t(t), repeats, dim)
    torch.sign = lambda t: _t(t).map(lambda a: s_ite(s_cmp('>', a, 0), 1.0, s_ite(s_cmp('<', a, 0), -1.0, 0.0)))
    torch.square = lambda t: _t(t).mul(_t(t))
    torch.reciprocal = lambda t: _t(t).rdiv(1.0)
    torch.cumsum = lambda t, dim=0: along_dim(_t(t), dim, _cumsum)
    torch.count_nonzero = lambda t, dim=None: _t(t).ne(0).map(lambda b: s_ite(as_bool(b), 1, 0)).sum(dim)
    torch.masked_select = lambda t, m: _t(t)[m.expand_to(_t(t).shape)] if m.shape != _t(t).shape else _t(t).flatten()[m.flatten()]
    torch.index_select = lambda t, dim, idx: _t(t)._select(_t(t)._norm_dim(dim), [concretize_int(i) for i in _t(idx).els])
    torch.hstack = lambda ts: cat([_t(x) for x in ts], 0 if len(_t(ts[0]).shape) == 1 else 1)
    torch.vstack = lambda ts: cat([_t(x) if len(_t(x).shape) > 1 else _t(x).unsqueeze(0) for x in ts], 0)
    torch.numel = lambda t: _t(t).numel()
    torch.broadcast_to = lambda t, shape: _t(t).expand_to(tuple(shape))
    torch.zeros_like = like(0.0)
    torch.full_like = lambda t, v, **kw: Tensor.full(_t(t).shape, v)
    torch.allclose = lambda a, b, rtol=1e-05, atol=1e-08, equal_nan=False: s_and(*[as_bool(e) for e in torch.isclose(a, b, rtol, atol).els])
    torch.equal = lambda a, b: (_t(a).shape == _t(b).shape) and s_and(*[as_bool(e) for e in _t(a).eq(b).els])

    def t_argsort(t, dim=-1, descending=False, stable=False):
        t = _t(t)
        if len(t.shape) == 2:
            d = t._norm_dim(dim)
            rows = [t_argsort(t[i] if d == 1 else t[:, i], 0, descending) for i in range(t.shape[1 - d])]
            m = stack(rows, 0)
            return m if d == 1 else m.transpose(0, 1)
        if len(t.shape) != 1:
            raise Unsupported('argsort of a tensor of rank > 2')
        # data-dependent permutation: every comparison forks (python-level insertion sort, stable)
        idx = list(range(t.shape[0]))
        out = []
        for i in idx:
            pos = len(out)
            for j, o in enumerate(out):
                c = s_cmp('>', t.els[i], t.els[o]) if descending else s_cmp('<', t.els[i], t.els[o])
                if truth(c):
                    pos = j
                    break
            out.insert(pos, i)
        return Tensor((len(out),), out)
    torch.argsort = t_argsort

    def t_sort(t, dim=-1, descending=False, stable=False):
        t = _t(t)
        ix = t_argsort(t, dim, descending)
        from .tensor import MaxResult
        return MaxResult(Tensor(t.shape, [t.els[i] for i in ix.els]), ix)
    torch.sort = t_sort

    def t_var(t, dim=None, unbiased=True, keepdim=False, correction=None):
        t = _t(t)
        if dim is not None:
            raise Unsupported('var with dim')
        n = t.numel()
        mu = t.mean().item()
        ss = 0.0
        for e in t.els:
            d = s_sub(e, mu)
            ss = s_add(ss, s_mul(d, d))
        return Tensor((), [s_div(ss, n - (1 if unbiased else 0))])
    torch.var = t_var

    # autograd
    AF = I.StubClass('torch.autograd.Function', {})
    torch.autograd = I.NS('autograd', Function=AF, grad=I.Missing('torch.autograd.grad'))

    def af_apply(it, cls, *args, **kw):
        ctx = I.Obj(CTX)
        ctx.attrs['saved_tensors'] = ()
        ctx.attrs['needs_input_grad'] = tuple(True for _ in args)
        fw = it.getattr(cls, 'forward')
        it.last_ctx = ctx
        return it.call(fw, [ctx] + list(args), kw)
    AF.members_py['apply'] = af_apply
    CTX = I.StubClass('ctx', {'save_for_backward': lambda it, s, *t: s.attrs.__setitem__('saved_tensors', tuple(t)),
                              'mark_non_differentiable': lambda it, s, *t: None,
                              'set_materialize_grads': lambda it, s, v: None})
    torch.autograd.function = I.NS('function', FunctionCtx=CTX)

    # functional
    F = I.NS('torch.nn.functional')
    F.softmax = f_softmax
    F.gumbel_softmax = f_gumbel_softmax
    F.one_hot = f_one_hot
    F.relu = lambda t, inplace=False: _t(t).relu()
    F.relu6 = lambda t, inplace=False: _t(t).clamp(0.0, 6.0)
    F.linear = f_linear
    F.conv1d = lambda x, w, b=None, stride=1, padding=0, dilation=1, groups=1: f_convnd(1, x, w, b, stride, padding, dilation, groups)
    F.conv2d = lambda x, w, b=None, stride=1, padding=0, dilation=1, groups=1: f_convnd(2, x, w, b, stride, padding, dilation, groups)
    F.conv3d = lambda x, w, b=None, stride=1, padding=0, dilation=1, groups=1: f_convnd(3, x, w, b, stride, padding, dilation, groups)
    F.pad = f_pad
    F.batch_norm = lambda x, rm, rv, weight=None, bias=None, training=False, momentum=0.1, eps=1e-5: \
        f_batch_norm_eval(x, rm, rv, weight, bias, eps) if not training else (_ for _ in ()).throw(Unsupported('batch_norm training'))
    nn.functional = F
    torch.conv1d, torch.conv2d, torch.conv3d = F.conv1d, F.conv2d, F.conv3d
    torch.relu = F.relu

    # fx: only names needed for isinstance / annotations + the single-node bookkeeping classes
    fx = I.NS('torch.fx', Node=FxNode, GraphModule=nn._fx_stubs['GraphModule'], Graph=FxGraph, Tracer=nn._fx_stubs['Tracer'],
              passes=I.NS('passes', shape_prop=I.NS('shape_prop', ShapeProp=nn._fx_stubs['ShapeProp'])))
    def fx_replace_node_module(it, node, modules, new_module):
        """torch.fx.experimental.optimization.replace_node_module: modules[node.target] = new_module; setattr(modules[parent], name, new_module)"""
        if not isinstance(node.target, str):
            raise I.RaiseEx(AssertionError('replace_node_module: node.target is not a string'))
        parent, _, name = node.target.rpartition('.')
        modules[node.target] = new_module
        par = modules[parent]
        par.attrs.pop(name, None)
        par.attrs['_modules'][name] = new_module
        return None
    fx.experimental = I.NS('experimental', optimization=I.NS('optimization', replace_node_module=I.InterpBuiltin(fx_replace_node_module)))
    torch.fx = fx
    def t_vmap(it, fn, in_dims=0, out_dims=0, **kw):
        """torch.vmap over dimension 0 of every (tensor) argument; results stacked along dimension 0"""
        if in_dims != 0 or out_dims != 0:
            raise Unsupported('vmap over a dimension other than 0')

        def mapped(it2, *args):
            n = _t(args[0]).shape[0]
            outs = [_t(it.call(fn, [_t(a)[i] for a in args], {})) for i in range(n)]
            return stack(outs, 0)
        return I.InterpBuiltin(mapped)
    torch.vmap = I.InterpBuiltin(t_vmap)
    torch.onnx = I.Missing('torch.onnx')

    # ---- method-level patches on Tensor that need the library (softmax etc.)
    Tensor.softmax = lambda s, dim=None: f_softmax(s, dim)
    Tensor.sqrt = lambda s: s.map(u_sqrt)
    Tensor.rsqrt = lambda s: s.map(u_rsqrt)
    Tensor.exp = lambda s: s.map(u_exp)
    Tensor.log = lambda s: s.map(u_log)

    typing = I.NS('typing')
    for n in ('Any', 'Dict', 'List', 'Tuple', 'Optional', 'Union', 'Iterator', 'Iterable', 'Callable', 'Type', 'Set',
              'Sequence', 'Literal', 'NamedTuple', 'Generator', 'Mapping', 'TypeVar', 'Generic'):
        setattr(typing, n, None)
    typing.cast = lambda t, v: v
    typing.TYPE_CHECKING = False

    mathns = I.NS('math', pi=math.pi, e=math.e, inf=math.inf)
    mathns.floor = lambda x: s_floor(_sc(x))
    mathns.ceil = lambda x: s_ceil(_sc(x))
    mathns.sqrt = lambda x: u_sqrt(_sc(x))
    mathns.log = lambda x, base=None: _mlog(_sc(x), base)
    mathns.log2 = lambda x: _mlog(_sc(x), 2)
    mathns.exp = lambda x: u_exp(_sc(x))
    mathns.prod = lambda xs, start=1: _fold(s_mul, list(xs), start)
    mathns.isclose = lambda a, b, rel_tol=1e-09, abs_tol=0.0: s_cmp('<=', s_abs(s_sub(a, b)), s_max(s_mul(rel_tol, s_max(s_abs(a), s_abs(b))), abs_tol))
    mathns.fabs = lambda x: s_abs(_sc(x))
    mathns.pow = lambda a, b: a ** b
    mathns.isnan = lambda x: False
    mathns.isinf = lambda x: False

    np = I.NS('numpy')
    np.log2 = lambda x: _mlog(_sc(x), 2)
    np.round = lambda x, *a: s_round(_sc(x))
    np.ceil = lambda x: s_ceil(_sc(x))
    np.floor = lambda x: s_floor(_sc(x))
    np.prod = lambda xs: _fold(s_mul, list(xs), 1)
    np.array = lambda x, *a, **k: Tensor.from_nested(x)

    itertools = I.NS('itertools', product=_it.product, chain=_it.chain, combinations=_it.combinations,
                     permutations=_it.permutations, accumulate=_it.accumulate, repeat=_it.repeat, count=_it.count,
                     zip_longest=_it.zip_longest, islice=_it.islice)
    itertools.groupby = B(sym_groupby)

    copyns = I.NS('copy', deepcopy=B(lambda it, o, memo=None: deepcopy(it, o, {})), copy=B(lambda it, o: shallow(it, o)))
    warnings = I.NS('warnings', warn=lambda *a, **k: None, filterwarnings=lambda *a, **k: None, simplefilter=lambda *a, **k: None)
    abc = I.NS('abc', abstractmethod=None, ABC=I.StubClass('ABC', {}))
    ENUM = I.StubClass('Enum', {})
    enum = I.NS('enum', Enum=ENUM, IntEnum=ENUM, auto=lambda: None)
    operator = I.NS('operator', add=B(lambda it, a, b: it.binop(ast.Add(), a, b)), sub=B(lambda it, a, b: it.binop(ast.Sub(), a, b)),
                    mul=B(lambda it, a, b: it.binop(ast.Mult(), a, b)), truediv=B(lambda it, a, b: it.binop(ast.Div(), a, b)),
                    getitem=B(lambda it, a, b: it.getitem(a, b)))
    functools = I.NS('functools', reduce=B(lambda it, f, xs, *init: _reduce(it, f, list(it.iterate(xs)), *init)),
                     partial=B(lambda it, f, *a, **k: B(lambda it2, *a2, **k2: it.call(f, list(a) + list(a2), {**k, **k2}))))
    def ud_get(it, s, k, default=None):
        d = s.attrs['data']
        return d[k] if it.py_truth(it.contains(d, k)) else default
    USERDICT = I.StubClass('UserDict', {
        '__init__': lambda it, s, d=None, **kw: s.attrs.__setitem__('data', dict(d or {}, **kw)),
        '__getitem__': lambda it, s, k: it.getitem(s.attrs['data'], k),
        '__setitem__': lambda it, s, k, v: it.setitem(s.attrs['data'], k, v),
        '__contains__': lambda it, s, k: it.contains(s.attrs['data'], k),
        '__len__': lambda it, s: it.builtin_len(s.attrs['data']),
        '__iter__': lambda it, s: iter(list(s.attrs['data'])),
        'keys': lambda it, s: s.attrs['data'].keys(), 'values': lambda it, s: s.attrs['data'].values(),
        'items': lambda it, s: s.attrs['data'].items(), 'get': ud_get})
    interp.libs.update({'torch': torch, 'math': mathns, 'numpy': np, 'itertools': itertools, 'copy': copyns, 'typing': typing,
                        'warnings': warnings, 'abc': abc, 'enum': enum, 'operator': operator, 'functools': functools,
                        'enum_Enum': ENUM, 'networkx': I.NS('networkx', DiGraph=NxDiGraph, weakly_connected_components=nx_weakly_connected_components), 'os': I.Missing('os'), 'sys': I.Missing('sys'),
                        'collections': I.NS('collections', OrderedDict=dict, defaultdict=I.Missing('defaultdict'), UserDict=USERDICT)})
    interp.builtins = make_builtins(interp)
    # library entry points that become call_function nodes when applied to a torch.fx Proxy
    interp.fx_functions = {}
    for ns in (torch, torch.nn.functional, operator):
        for k, v in ns.__dict__.items():
            if (callable(v) or isinstance(v, I.InterpBuiltin)) and not isinstance(v, (I.StubClass, I.NS, type)):
                interp.fx_functions.setdefault(id(v), k)


def _unsupported(msg):
    raise Unsupported(msg)


def _cumsum(xs):
    out = []
    acc = 0
    for x in xs:
        acc = s_add(acc, x)
        out.append(acc)
    return out


def _repeat_interleave(t, repeats, dim):
    if dim is None:
        t = t.flatten()
        dim = 0
    r = concretize_int(repeats.item() if isinstance(repeats, Tensor) else repeats)
    d = t._norm_dim(dim)
    return t._select(d, [i for i in range(t.shape[d]) for _ in range(r)])


def _div(a, b, mode):
    a = _t(a) if not isinstance(a, Tensor) and isinstance(b, Tensor) is False else a
    r = _t(a).div(b) if isinstance(a, Tensor) else _t(b).rdiv(a)
    if mode == 'floor':
        return r.floor()
    if mode == 'trunc':
        return r.map(lambda x: to_real(s_trunc(x)))
    return r


def _sc(x):
    return x.item() if isinstance(x, Tensor) else x


def _mlog(x, base):
    if is_sym(x):
        raise Unsupported('log of a symbolic value')
    return math.log(x) if base is None else math.log(x, base)


def _fold(f, xs, init):
    r = init
    for x in xs:
        r = f(r, _sc(x))
    return r


def _reduce(it, f, xs, *init):
    if init:
        acc = init[0]
    else:
        acc = xs[0]
        xs = xs[1:]
    for x in xs:
        acc = it.call(f, [acc, x], {})
    return acc


def sym_groupby(it, iterable, key=None):
    """itertools.groupby with symbolic keys: every key comparison forks the path (only reachable patterns survive)"""
    groups = []
    cur_key = None
    cur = None
    for x in it.iterate(iterable):
        k = it.call(key, [x], {}) if key is not None else x
        kk = k.item() if isinstance(k, Tensor) and k.numel() == 1 else k
        same = False
        if cur is not None:
            r = it.compare(ast.Eq(), kk, cur_key)
            same = it.py_truth(r)
        if not same:
            cur = []
            cur_key = kk
            groups.append((k, cur))
        cur.append(x)
    return iter([(k, iter(g)) for k, g in groups])


def deepcopy(it, o, memo):
    if id(o) in memo:
        return memo[id(o)]
    if isinstance(o, I.Obj):
        n = I.Obj(o.cls)
        memo[id(o)] = n
        for k, v in o.attrs.items():
            n.attrs[k] = deepcopy(it, v, memo)
        return n
    if isinstance(o, Tensor):
        n = Tensor(o.shape, o.els, o.requires_grad, o.is_param)
        memo[id(o)] = n
        return n
    if isinstance(o, list):
        n = []
        memo[id(o)] = n
        n.extend(deepcopy(it, x, memo) for x in o)
        return n
    if isinstance(o, dict):
        n = {}
        memo[id(o)] = n
        for k, v in o.items():
            n[k] = deepcopy(it, v, memo)
        return n
    if isinstance(o, tuple):
        return tuple(deepcopy(it, x, memo) for x in o)
    if isinstance(o, set):
        return {deepcopy(it, x, memo) for x in o}
    if isinstance(o, I.Bound):
        return I.Bound(deepcopy(it, o.obj, memo), o.clo)
    if isinstance(o, I.PyBound):
        return I.PyBound(deepcopy(it, o.obj, memo), o.f, o.name)
    return o          # immutable scalars, z3 terms, classes, functions


def shallow(it, o):
    if isinstance(o, I.Obj):
        n = I.Obj(o.cls)
        n.attrs = dict(o.attrs)
        return n
    if isinstance(o, Tensor):
        return o.clone()
    return _copy.copy(o)


# ------------------------------------------------------------------------------------------ builtins
def make_builtins(interp):
    B = I.InterpBuiltin
    RaiseEx = I.RaiseEx

    def b_len(it, v):
        return it.builtin_len(v)

    def b_range(it, *a):
        return range(*[concretize_int(_sc(x)) for x in a])

    def b_int(it, v=0, base=None):
        v = _sc(v)
        if is_sym(v):
            return s_trunc(v)
        if isinstance(v, I.Obj):
            raise RaiseEx(TypeError('int() of object'))
        try:
            return int(v) if base is None else int(v, base)
        except (ValueError, TypeError) as e:
            raise RaiseEx(e)

    def b_float(it, v=0.0):
        v = _sc(v)
        if is_sym(v):
            return to_real(v)
        if isinstance(v, str) and v in ('inf', '-inf', 'nan'):
            return float(v)
        try:
            return float(v)
        except (ValueError, TypeError) as e:
            raise RaiseEx(e)

    def b_bool(it, v=False):
        v = _sc(v)
        if is_sym(v):
            return as_bool(v)
        return it.py_truth(v)

    def b_abs(it, v):
        if isinstance(v, Tensor):
            return v.abs()
        return s_abs(v)

    def b_round(it, v, nd=None):
        v = _sc(v)
        if nd is not None:
            if is_sym(v):
                raise Unsupported('round(x, n) of a symbolic value')
            return round(v, nd)
        return s_round(v)

    def _minmax(it, f, args, key, default):
        if len(args) == 1:
            xs = list(it.iterate(args[0]))
        else:
            xs = list(args)
        if not xs:
            if default is _ND:
                raise RaiseEx(ValueError('min()/max() arg is an empty sequence'))
            return default
        if key is not None:
            ks = [it.call(key, [x], {}) for x in xs]
            best = 0
            for i in range(1, len(xs)):
                c = s_cmp('>', _sc(ks[i]), _sc(ks[best])) if f is s_max else s_cmp('<', _sc(ks[i]), _sc(ks[best]))
                if truth(c):
                    best = i
            return xs[best]
        acc = xs[0]
        for x in xs[1:]:
            if isinstance(acc, Tensor) or isinstance(x, Tensor):
                a, b = _sc(acc), _sc(x)
                acc = Tensor((), [f(a, b)])
            elif isinstance(acc, (tuple, list, str)):
                if (f is s_max and x > acc) or (f is s_min and x < acc):
                    acc = x
            else:
                acc = f(acc, x)
        return acc

    _ND = object()

    def b_max(it, *a, key=None, default=_ND):
        return _minmax(it, s_max, a, key, default)

    def b_min(it, *a, key=None, default=_ND):
        return _minmax(it, s_min, a, key, default)

    def b_sum(it, xs, start=0):
        acc = start
        for x in it.iterate(xs):
            acc = it.binop(ast.Add(), acc, x)
        return acc

    def b_any(it, xs):
        vals = []
        for x in it.iterate(xs):
            if isinstance(x, Tensor):
                x = x.item() if x.numel() == 1 else x.any().item()
            vals.append(as_bool(x) if is_sym(x) else it.py_truth(x))
        return s_or(*vals)

    def b_all(it, xs):
        vals = []
        for x in it.iterate(xs):
            if isinstance(x, Tensor):
                x = x.item() if x.numel() == 1 else x.all().item()
            vals.append(as_bool(x) if is_sym(x) else it.py_truth(x))
        return s_and(*vals)

    def b_isinstance(it, o, c):
        return it.isinstance(o, c)

    def b_getattr(it, o, name, *default):
        try:
            return it.getattr(o, name)
        except RaiseEx as e:
            if default and e.exc_name() == 'AttributeError':
                return default[0]
            raise

    def b_type(it, o, *rest):
        if rest:
            raise Unsupported('3-argument type()')
        return it.type_of(o)

    def b_vars(it, o):
        if isinstance(o, I.Obj):
            return o.attrs
        raise RaiseEx(TypeError('vars() argument must have __dict__'))

    def b_sorted(it, xs, key=None, reverse=False):
        xs = list(it.iterate(xs))
        ks = [_sc(it.call(key, [x], {})) if key is not None else _sc(x) for x in xs]
        out = []
        for i in range(len(xs)):
            pos = len(out)
            for j, o in enumerate(out):
                c = s_cmp('<', ks[i], ks[o]) if not reverse else s_cmp('>', ks[i], ks[o])
                if truth(c):
                    pos = j
                    break
            out.insert(pos, i)
        return [xs[i] for i in out]

    def b_map(it, f, *xss):
        return iter([it.call(f, list(args), {}) for args in zip(*[it.iterate(x) for x in xss])])

    def b_filter(it, f, xs):
        return iter([x for x in it.iterate(xs) if it.py_truth(it.call(f, [x], {}) if f is not None else x)])

    def b_enumerate(it, xs, start=0):
        return enumerate(it.iterate(xs), start)

    def b_zip(it, *xss, strict=False):
        from .modeb import SSeq
        if xss and all(isinstance(x, SSeq) for x in xss):
            # sequences of symbolic length: the harness states that they have the same length (zip stops at the shortest)
            return SSeq(xss[0].n, lambda i: tuple(x.elem(i) for x in xss), 'zip')
        return zip(*[it.iterate(x) for x in xss])

    def b_list(it, xs=()):
        return list(it.iterate(xs))

    def b_tuple(it, xs=()):
        return tuple(it.iterate(xs))

    def b_set(it, xs=()):
        return set(it.iterate(xs))

    def b_dict(it, *a, **k):
        d = {}
        if a:
            src = a[0]
            if isinstance(src, dict):
                d.update(src)
            else:
                for kv in it.iterate(src):
                    kk, vv = list(it.iterate(kv))
                    d[kk] = vv
        d.update(k)
        return d

    def b_iter(it, xs):
        return iter(it.iterate(xs))

    def b_next(it, x, *default):
        try:
            return next(x)
        except StopIteration as e:
            if default:
                return default[0]
            raise RaiseEx(e)

    def b_str(it, v=''):
        if isinstance(v, I.Obj):
            c, mem = it.find_member(v.cls, '__str__')        # a __str__ defined in interpreted (repository / harness) source runs from that source
            if mem is not None:
                return it.call(it.bind_member(v, c, mem, '__str__'), [], {})
        return it.format_value(v, -1, '')

    def b_id(it, o):
        return id(o)

    def b_callable(it, o):
        return isinstance(o, (I.Closure, I.Bound, I.PyBound, I.SymCallable, I.InterpBuiltin, I.ClassInfo, I.StubClass)) or callable(o)

    def b_divmod(it, a, b):
        it.check_div(b)
        return (s_floordiv(a, b), s_mod(a, b))

    def b_pow(it, a, b):
        return it.binop(ast.Pow(), a, b)

    def b_reversed(it, xs):
        return iter(list(it.iterate(xs))[::-1])

    out = dict(len=B(b_len), range=B(b_range), int=int, float=float, bool=bool, abs=B(b_abs), round=B(b_round), max=B(b_max), min=B(b_min),
               sum=B(b_sum), any=B(b_any), all=B(b_all), isinstance=B(b_isinstance), issubclass=B(lambda it, a, c: it.issubclass(a, c)),
               hasattr=B(lambda it, o, n: it.hasattr(o, n)), getattr=B(b_getattr), setattr=B(lambda it, o, n, v: it.setattr(o, n, v)),
               delattr=B(lambda it, o, n: it.delattr(o, n)),
               type=B(b_type), vars=B(b_vars), sorted=B(b_sorted), map=B(b_map), filter=B(b_filter), enumerate=B(b_enumerate), zip=B(b_zip),
               list=list, tuple=tuple, set=set, dict=dict, iter=B(b_iter), next=B(b_next), str=str, repr=B(b_str), id=B(b_id), super=super,
               print=B(lambda it, *a, **k: None), callable=B(b_callable), divmod=B(b_divmod), pow=B(b_pow), reversed=B(b_reversed),
               object=object, frozenset=frozenset, slice=slice, NotImplemented=NotImplemented, Ellipsis=Ellipsis,
               True_=True, property=I.Missing('property'), staticmethod=I.Missing('staticmethod'), format=format, hash=hash, chr=chr, ord=ord)
    # int/float/bool/list/tuple/dict/set/str are used both as types (isinstance) and as converters
    interp.type_calls = {int: b_int, float: b_float, bool: b_bool, list: b_list, tuple: b_tuple, set: b_set, dict: b_dict, str: b_str}
    for e in (Exception, BaseException, KeyError, IndexError, ValueError, TypeError, ZeroDivisionError, AttributeError, StopIteration,
              AssertionError, RuntimeError, NotImplementedError, NameError, ArithmeticError, OverflowError, LookupError, Warning,
              UserWarning, DeprecationWarning):
        out[e.__name__] = e
    return out
